package main

import (
	"go/ast"
	"go/token"
	"go/types"
	"strings"
)

func init() {
	register(&Property{
		ID:         "C15",
		Level:      "other",
		Technique:  "CFG dominance of decode sites by Reset (or the Merge test), struct-shape rule over every generated Reset method and its generator emission site, completeness of the reflective reset (static)",
		Explain:    "Decides structural necessary conditions of `Unmarshal and Reset erase all prior state`: (1) in proto.UnmarshalOptions.unmarshal every decode site (fast-path Unmarshal method, slow path) is dominated by Reset(m) or by the true edge of o.Merge, and the Merge test is not preceded by the `o.Merge = true` normalisation; in protojson and prototext every decode site is dominated by proto.Reset; (2) every generated Reset method in every .pb.go of the loaded packages begins by assigning the empty composite literal of its own type to *x (which clears every field, presence word, lazy info, unknown bytes, extension map and size cache by construction), and the generator emits exactly that statement; (3) the reflective resetMessage clears every declared field, every ranged (extension) field and the unknown bytes; (4) the hand-written Reset of dynamicpb.Message assigns every content field of its struct on every path.",
		NotCovered: "equality with a fresh decode on concrete histories; state kept outside the message struct (weak/legacy caches); Reset methods written by hand outside the library.",
		Quick:      all("./proto", "./encoding/protojson", "./encoding/prototext", "./cmd/protoc-gen-go/internal_gengo", "./types/..."),
		Thorough:   all("./..."),
		Run: func(c *Ctx) {
			c.ruleResetWrapper("R-RESET-WRAPPER")
			c.ruleNestedMerge("R-NESTED-MERGE")
			c.ruleResetFirst("R-RESET-FIRST")
			c.ruleGenResetShape("R-GEN-RESET-SHAPE", 60)
			c.ruleResetComplete("R-RESET-COMPLETE")
			c.ruleResetHand("R-RESET-HAND")
		},
	})
}

func (c *Ctx) ruleResetFirst(rule string) {
	R, P := c.R, c.P
	R.Rule(rule, "every decode site of the central unmarshal functions is dominated by a Reset of the target message, or (binary only) by the true edge of the caller's Merge option read before it is normalised", 4)
	// binary
	if fi := c.need(rule, "proto.UnmarshalOptions.unmarshal"); fi != nil {
		info := fi.Info()
		g := fi.CFG()
		isMerge := func(core ast.Expr) bool {
			_, f, ok := fieldSel(info, core)
			return ok && f == "Merge"
		}
		isReset := func(n ast.Node) bool { return containsCall(info, n, "proto.Reset") != nil }
		var sites []ast.Node
		walk(fi.Decl.Body, func(n ast.Node) bool {
			call, ok := n.(*ast.CallExpr)
			if !ok {
				return true
			}
			if k := calleeKey(info, call); k == "proto.UnmarshalOptions.unmarshalMessageSlow" {
				sites = append(sites, call)
			} else if se, ok := call.Fun.(*ast.SelectorExpr); ok && se.Sel.Name == "Unmarshal" {
				if _, f, ok := fieldSel(info, se); ok && f == "Unmarshal" {
					sites = append(sites, call)
				}
			}
			return true
		})
		if len(sites) < 2 {
			R.Unk(rule, fi.Key, P.Pos(fi.Decl), "expected the fast-path and slow-path decode sites; found "+itoa(len(sites)))
		}
		for i, s := range sites {
			ok := g.DominatedByCondOrNode(s, func(core ast.Expr, val bool) bool { return val && isMerge(core) }, isReset)
			R.Check(ok, rule, fi.Key+" decode site #"+itoa(i+1), P.Pos(s), "dominated by Reset(m) or by o.Merge being true", "a decode into m is reachable without Reset although Merge was not requested: prior state of the message would survive Unmarshal")
		}
		// the Merge test must see the caller's value: no assignment to o.Merge dominates the Reset call
		var resetCall ast.Node
		walk(fi.Decl.Body, func(n ast.Node) bool {
			if call, ok := n.(*ast.CallExpr); ok && calleeKey(info, call) == "proto.Reset" {
				resetCall = call
			}
			return true
		})
		if resetCall == nil {
			R.Bad(rule, fi.Key+" reset", P.Pos(fi.Decl), "no Reset call in the central unmarshal function")
		} else {
			early := g.DominatedByNode(resetCall, func(n ast.Node) bool {
				as, ok := n.(*ast.AssignStmt)
				if !ok {
					return false
				}
				for _, l := range as.Lhs {
					if isMerge(l) {
						return true
					}
				}
				return false
			})
			R.Check(!early, rule, fi.Key+" merge-normalisation order", P.Pos(resetCall), "o.Merge is tested before it is overwritten", "o.Merge is overwritten before the Reset decision: Reset would be skipped for every caller")
		}
	}
	// JSON and text
	for _, e := range []struct{ key, dec string }{
		{"encoding/protojson.UnmarshalOptions.unmarshal", "encoding/protojson.decoder.unmarshalMessage"},
		{"encoding/prototext.UnmarshalOptions.unmarshal", "encoding/prototext.decoder.unmarshalMessage"},
	} {
		fi := c.need(rule, e.key)
		if fi == nil {
			continue
		}
		info := fi.Info()
		g := fi.CFG()
		calls := allCalls(info, fi.Decl.Body, e.dec)
		if len(calls) == 0 {
			R.Unk(rule, e.key, P.Pos(fi.Decl), "decode call not found")
		}
		for i, s := range calls {
			ok := g.DominatedByNode(s, func(n ast.Node) bool { return containsCall(info, n, "proto.Reset") != nil })
			R.Check(ok, rule, e.key+" decode site #"+itoa(i+1), P.Pos(s), "dominated by proto.Reset(m)", "the message is decoded into without being Reset first: prior state survives Unmarshal")
		}
	}
}

// emptyLitOfRecv: stmt is `*x = T{}` where x is the receiver and T its element type.
func emptyLitOfRecv(info *types.Info, stmt ast.Stmt, rv *types.Var) bool {
	as, ok := stmt.(*ast.AssignStmt)
	if !ok || as.Tok != token.ASSIGN || len(as.Lhs) != 1 || len(as.Rhs) != 1 {
		return false
	}
	st, ok := unparen(as.Lhs[0]).(*ast.StarExpr)
	if !ok {
		return false
	}
	id, ok := unparen(st.X).(*ast.Ident)
	if !ok || info.Uses[id] != rv {
		return false
	}
	cl, ok := unparen(as.Rhs[0]).(*ast.CompositeLit)
	if !ok || len(cl.Elts) != 0 {
		return false
	}
	pt, ok := rv.Type().(*types.Pointer)
	if !ok {
		return false
	}
	return types.Identical(info.TypeOf(cl), pt.Elem())
}

func (c *Ctx) ruleGenResetShape(rule string, libFloor int) {
	R, P := c.R, c.P
	R.Rule(rule, "every generated `func (x *T) Reset()` starts with `*x = T{}` (empty composite literal of the receiver's own type) and never writes individual fields before it; the generator's emission site prints that statement directly after the method header; floor counts the library's own types/... packages", libFloor)
	total, files := 0, 0
	for _, pk := range P.Pkgs {
		for _, f := range pk.Syntax {
			fn := P.Fset.Position(f.Pos()).Filename
			if !strings.HasSuffix(fn, ".pb.go") {
				continue
			}
			files++
			isLib := strings.Contains(fn, "/types/")
			info := pk.TypesInfo
			for _, d := range f.Decls {
				fd, ok := d.(*ast.FuncDecl)
				if !ok || fd.Recv == nil || fd.Body == nil || fd.Name.Name != "Reset" || len(fd.Recv.List) != 1 || len(fd.Recv.List[0].Names) != 1 {
					continue
				}
				if fd.Type.Params.NumFields() != 0 || fd.Type.Results.NumFields() != 0 {
					continue
				}
				rv, _ := info.Defs[fd.Recv.List[0].Names[0]].(*types.Var)
				if rv == nil {
					continue
				}
				total++
				obj, _ := info.Defs[fd.Name].(*types.Func)
				key := fn[strings.Index(fn, "/repo/")+6:] + ":" + funcKey(obj)
				if i := strings.Index(fn, "/repo/"); i < 0 {
					key = funcKey(obj)
				}
				ok2 := len(fd.Body.List) > 0 && emptyLitOfRecv(info, fd.Body.List[0], rv)
				if !ok2 {
					R.Bad(rule, key, P.Pos(fd), "generated Reset does not begin with `*x = T{}`: fields not named by the method (presence words, lazy info, unknown bytes, extensions, size cache) would survive Reset")
				} else if isLib {
					R.OK(rule, key, P.Pos(fd), "*x = T{} first")
				}
			}
		}
	}
	R.Assumptions = append(R.Assumptions, "R-GEN-RESET-SHAPE analysed "+itoa(total)+" generated Reset methods in "+itoa(files)+" .pb.go files of the loaded packages; only those under types/ are listed as discharged obligations and counted against the floor, violations are reported for all")
	// generator emission site
	if P.Pkg("cmd/protoc-gen-go/internal_gengo") == nil {
		return
	}
	fi := c.need(rule, "cmd/protoc-gen-go/internal_gengo.genMessageBaseMethods")
	if fi == nil {
		return
	}
	info := fi.Info()
	// sequence of g.P calls; find the one whose string constants contain ") Reset() {" and inspect the next
	var ps []*ast.CallExpr
	walk(fi.Decl.Body, func(n ast.Node) bool {
		if call, ok := n.(*ast.CallExpr); ok && calleeKey(info, call) == "compiler/protogen.(*GeneratedFile).P" {
			ps = append(ps, call)
		}
		return true
	})
	strs := func(call *ast.CallExpr) []string {
		var out []string
		for _, a := range call.Args {
			if tv, ok := info.Types[a]; ok && tv.Value != nil {
				out = append(out, strings.Trim(tv.Value.ExactString(), `"`))
			} else {
				out = append(out, "\x00"+exprStr(a))
			}
		}
		return out
	}
	found := false
	for i, p := range ps {
		s := strs(p)
		if len(s) == 0 || !strings.Contains(s[len(s)-1], ") Reset() {") {
			continue
		}
		found = true
		good := false
		if i+1 < len(ps) {
			n := strs(ps[i+1])
			// "*x = ", <ident>, "{}" where <ident> is the same expression as in the header
			if len(n) == 3 && strings.TrimSpace(n[0]) == "*x =" && n[2] == "{}" && len(s) >= 2 && n[1] == s[1] {
				good = true
			}
		}
		R.Check(good, rule, fi.Key+" emission", P.Pos(p), "emits `*x = <T>{}` directly after the Reset header, for the same type", "the generator does not emit `*x = T{}` as the first statement of Reset (or emits it for a different type)")
	}
	if !found {
		R.Unk(rule, fi.Key+" emission", P.Pos(fi.Decl), "emission of the Reset method header not found in genMessageBaseMethods")
	}
}

func (c *Ctx) ruleResetComplete(rule string) {
	R, P := c.R, c.P
	R.Rule(rule, "proto.resetMessage clears (a) every declared field in a loop over Descriptor().Fields(), (b) every field visited by Range (extensions), (c) the unknown bytes with SetUnknown(nil); none of the three is conditional on anything but message validity", 3)
	fi := c.need(rule, "proto.resetMessage")
	if fi == nil {
		return
	}
	info := fi.Info()
	g := fi.CFG()
	uncond := func(n ast.Node) bool {
		// reachable on every path from entry to a normal return: no return is reachable without passing n
		sp, ok := g.posOf(n)
		if !ok {
			return false
		}
		_ = sp
		found, _ := g.Forward(g.Entry(), Search{
			Target:  func(x ast.Node) bool { _, isRet := x.(*ast.ReturnStmt); return isRet },
			Barrier: func(x ast.Node) bool { return containsNode(x, n) || x == n },
		})
		return !found
	}
	// (a)
	var loopClear ast.Node
	walk(fi.Decl.Body, func(n ast.Node) bool {
		if fs, ok := n.(*ast.ForStmt); ok && fs.Cond != nil {
			if containsCall(info, fs.Cond, "reflect/protoreflect.FieldDescriptors.Len") != nil {
				if cl := containsCall(info, fs.Body, "reflect/protoreflect.Message.Clear"); cl != nil {
					if len(cl.Args) == 1 && containsCall(info, cl.Args[0], "reflect/protoreflect.FieldDescriptors.Get") != nil {
						loopClear = fs
					}
				}
			}
		}
		return true
	})
	R.Check(loopClear != nil, rule, fi.Key+" declared fields", P.Pos(fi.Decl), "for i < fds.Len() { m.Clear(fds.Get(i)) }", "no loop clears every declared field")
	// (b)
	var rangeClear ast.Node
	for _, call := range allCalls(info, fi.Decl.Body, "reflect/protoreflect.Message.Range") {
		if len(call.Args) == 1 {
			if fl, ok := unparen(call.Args[0]).(*ast.FuncLit); ok {
				cl := containsCall(info, fl.Body, "reflect/protoreflect.Message.Clear")
				alwaysTrue := true
				walk(fl.Body, func(n ast.Node) bool {
					if rs, ok := n.(*ast.ReturnStmt); ok && len(rs.Results) == 1 {
						if v, ok := constBool(info, rs.Results[0]); !ok || !v {
							alwaysTrue = false
						}
					}
					return true
				})
				if cl != nil && alwaysTrue && len(fl.Body.List) > 0 {
					if es, ok := fl.Body.List[0].(*ast.ExprStmt); ok && es.X == ast.Expr(cl) {
						rangeClear = call
					}
				}
			}
		}
	}
	R.Check(rangeClear != nil, rule, fi.Key+" ranged fields", P.Pos(fi.Decl), "m.Range(func(fd, _) bool { m.Clear(fd); return true })", "populated fields found by Range (extensions) are not all cleared: the callback must clear unconditionally and keep iterating")
	// (c)
	var unk ast.Node
	for _, call := range allCalls(info, fi.Decl.Body, "reflect/protoreflect.Message.SetUnknown") {
		if len(call.Args) == 1 && isNilIdent(info, call.Args[0]) {
			unk = call
		}
	}
	R.Check(unk != nil && uncond(unk), rule, fi.Key+" unknown bytes", P.Pos(fi.Decl), "m.SetUnknown(nil) on every path", "unknown fields are not cleared on every path")
}

// R-RESET-HAND: hand-written Reset methods of message implementations in the
// library assign every content-carrying field of their struct.
func (c *Ctx) ruleResetHand(rule string) {
	R, P := c.R, c.P
	R.Rule(rule, "every hand-written Reset of a library message implementation assigns each field of its struct (exception table: immutable identity fields); a field left untouched survives Reset and non-Merge Unmarshal", 3)
	for _, e := range []struct {
		key    string
		exempt map[string]string
	}{
		{"types/dynamicpb.(*Message).Reset", map[string]string{"typ": "the message's type: immutable identity, not content"}},
	} {
		if P.Pkg("types/dynamicpb") == nil {
			continue
		}
		fi := c.need(rule, e.key)
		if fi == nil {
			continue
		}
		info := fi.Info()
		sig := fi.Obj.Type().(*types.Signature)
		pt, ok := sig.Recv().Type().(*types.Pointer)
		if !ok {
			R.Unk(rule, e.key, P.Pos(fi.Decl), "receiver is not a pointer")
			continue
		}
		st, ok := pt.Elem().Underlying().(*types.Struct)
		if !ok {
			R.Unk(rule, e.key, P.Pos(fi.Decl), "receiver is not a struct pointer")
			continue
		}
		assigned := map[string]bool{}
		whole := false
		g := fi.CFG()
		walk(fi.Decl.Body, func(n ast.Node) bool {
			as, ok := n.(*ast.AssignStmt)
			if !ok {
				return true
			}
			for _, l := range as.Lhs {
				if se, ok := unparen(l).(*ast.SelectorExpr); ok {
					if id, ok := unparen(se.X).(*ast.Ident); ok && objOf(info, id) == recvObj(info, fi) {
						// unconditional: no return reachable from entry without passing this assignment
						found, _ := g.Forward(g.Entry(), Search{
							Target:  func(x ast.Node) bool { _, isRet := x.(*ast.ReturnStmt); return isRet },
							Barrier: func(x ast.Node) bool { return x == ast.Node(as) },
						})
						if !found {
							assigned[se.Sel.Name] = true
						}
					}
				}
				if st2, ok := unparen(l).(*ast.StarExpr); ok {
					if id, ok := unparen(st2.X).(*ast.Ident); ok && objOf(info, id) == recvObj(info, fi) {
						whole = true
					}
				}
			}
			return true
		})
		for i := 0; i < st.NumFields(); i++ {
			f := st.Field(i).Name()
			construct := e.key + " field " + f
			if why, ok := e.exempt[f]; ok {
				R.Exempt(rule, construct, P.Pos(fi.Decl), why)
				continue
			}
			R.Check(whole || assigned[f], rule, construct, P.Pos(fi.Decl), "assigned on every path", "Reset does not assign this field on every path: its content survives Reset and non-Merge Unmarshal")
		}
	}
}

func recvObj(info *types.Info, fi *FuncInfo) types.Object {
	if fi.Decl.Recv == nil || len(fi.Decl.Recv.List) == 0 || len(fi.Decl.Recv.List[0].Names) == 0 {
		return nil
	}
	return info.Defs[fi.Decl.Recv.List[0].Names[0]]
}

// R-RESET-WRAPPER: a wrapped legacy message without its own Reset method is
// reset by overwriting the whole struct with its zero value (the counterpart
// of the generated `*x = T{}`): known fields, oneof wrappers, extensions and
// the unknown-field bytes all go at once. A field-by-field clear leaves
// whatever it does not enumerate (XXX_unrecognized).
func (c *Ctx) ruleResetWrapper(rule string) {
	R, P := c.R, c.P
	R.Rule(rule, "(*messageIfaceWrapper).Reset either delegates to the message's own Reset method or overwrites the whole struct with reflect.Zero of its type", 1)
	fi := c.need(rule, "internal/impl.(*messageIfaceWrapper).Reset")
	if fi == nil {
		return
	}
	info := fi.Info()
	delegates, zeroes := false, false
	walk(fi.Decl.Body, func(n ast.Node) bool {
		call, ok := n.(*ast.CallExpr)
		if !ok {
			return true
		}
		if se, ok := call.Fun.(*ast.SelectorExpr); ok && se.Sel.Name == "Reset" && len(call.Args) == 0 {
			delegates = true
		}
		if calleeKey(info, call) == "reflect.Value.Set" && len(call.Args) == 1 {
			if inner, ok := unparen(call.Args[0]).(*ast.CallExpr); ok && calleeKey(info, inner) == "reflect.Zero" {
				if se, ok := call.Fun.(*ast.SelectorExpr); ok && strings.HasSuffix(exprStr(se.X), ".Elem()") {
					zeroes = true
				}
			}
		}
		return true
	})
	R.Check(delegates && zeroes, rule, fi.Key, P.Pos(fi.Decl), "delegates to Reset() or overwrites the struct with its zero value", "the fallback of the legacy wrapper's Reset no longer overwrites the whole struct with its zero value: state that a field-by-field clear does not enumerate (unknown fields, extension map, size cache) survives Reset and a non-merging Unmarshal")
}
