package main

var binaryDecoderPkgs = []string{"proto", "internal/impl", "encoding/protowire", "internal/encoding/messageset", "encoding/protodelim", "internal/protolazy"}

// Deferred decoding of a buffer that was already validated (and its nesting
// bounded) when it was first seen: it runs under its own budget
// (lazyUnmarshalOptions.depth = DefaultRecursionLimit), so its recursion is
// not driven by the nesting of the input currently being decoded.
var lazyCutCallees = map[string]string{
	"(*internal/impl.MessageInfo).lazyUnmarshal": "budget reset (reviewed): decodes a lazy buffer that skipField/validate already accepted under the caller's depth budget; runs with lazyUnmarshalOptions.depth",
	"(*internal/impl.ExtensionField).lazyInit":   "budget reset (reviewed): decodes a lazy extension buffer that was validated on first decode; runs with lazyUnmarshalOptions.depth",
}

func init() {
	register(&Property{
		ID:         "C06",
		Level:      "other",
		Technique:  "call-graph SCC recursion-guard, forward CFG search for unchecked negative lengths, depth push/pop pairing, dominance checklist over the hand-unrolled tag loops (static)",
		Explain:    "Decides structural necessary conditions of C06 on every binary decoder: (1) every input-driven recursion cycle is cut by a dominating depth check; (2) no length returned by protowire.Consume* reaches a slice bound before its sign was tested (malformed input returns an error rather than panicking); (3) in the validator's explicit stack every depth decrement at a push is matched by an increment at the corresponding pop; (4) the hand-unrolled tag loops of the fast path (eager, lazy, single lazy field) use the tag's field number only after rejecting numbers outside [MinValidNumber, MaxValidNumber], reject a mismatched end-group tag, report success only when the group was closed, and report the consumed byte count. Also decided: every ConsumeTag loop of the decoders (including the MessageSet decoder) rejects field numbers above MaxValidNumber before acting on them; the validator's required-field presence test accepts each validation type exactly on the wire type it was assigned for, so a record with the wrong wire type (kept as unknown by Unmarshal) never marks a required field present. Also: the options rebuilt for messages without a MessageInfo (impl.marshalOptions.Options / unmarshalOptions.Options) carry every option of the proto package from the flag of the same name, including the remaining recursion depth (found D32: the limit was not enforced across legacy children).",
		NotCovered: "agreement of validator and decoder on every malformed buffer (behavioural); the validator's and the reflection decoder's own tag loops; panics from index arithmetic not tied to a Consume* length.",
		Quick:      all("./proto", "./internal/impl"),
		Thorough:   []ConfigLoad{{"default", []string{"./..."}}, {"legacy", []string{"./proto", "./internal/impl"}}},
		Run: func(c *Ctx) {
			c.ruleOptionsForward("R-OPTIONS-FORWARD")
			c.ruleRecursionGuard(recScope{Rule: "R-RECURSION-GUARD", Pkgs: binaryDecoderPkgs, Extra: []edgeGuard{guardConsumeGroupPayload, guardFreshFieldCoder(c.P)}, Floor: 5,
				CutCallees: lazyCutCallees})
			c.ruleDecodeSiblings("R-DECODE-SIBLINGS")
			c.ruleDepthPair("R-DEPTH-PAIR", "internal/impl.(*MessageInfo).validate")
			c.ruleConsumeTagRange("R-CONSUMETAG-RANGE", []string{"internal/impl", "proto", "internal/encoding/messageset"}, 4)
			c.ruleValidateWireType("R-VALIDATE-WIRETYPE")
			c.ruleNegLen("R-NEG-LEN", binaryDecoderPkgs, map[string]string{
				"internal/encoding/messageset.ConsumeFieldValue nn": "re-parses the length prefix of `message`, which is b[:n:n] of a ConsumeBytes call that already succeeded in this function",
				"internal/impl.equalUnknown n":                      "parses unknown-field bytes already stored in a message: they were validated by the decoder when stored (SetUnknown callers own validity); not decoder input",
			}, 100)
		},
	})
}
