package main

import (
	"go/ast"
	"go/types"
)

// R-SINGULAR-MSG-REUSE. Decoding a second occurrence of a singular message
// (or group) field merges into the message decoded by the first occurrence
// (and Unmarshal with Merge merges into the populated child). In the table
// driven decoder this is visible as: an unmarshal function stores a freshly
// allocated message into the field's slot only if the slot is nil. A coder
// that always decodes into a fresh child replaces the first occurrence's
// content, so the legacy/struct-tag coder path and the MessageInfo path (or
// dynamicpb) disagree on split messages.
func (c *Ctx) ruleSingularMsgReuse(rule string, floor int) {
	R, P := c.R, c.P
	R.Rule(rule, "in every unmarshal-shaped function or closure of internal/impl (first result unmarshalOutput), a store of a freshly allocated value (reflect.New) into the field slot (reflect.Value.Set, pointer.SetPointer) is dominated by an IsNil test of the slot that succeeded, or is the if-nil primitive AtomicSetPointerIfNil; the existing child is decoded into otherwise", floor)
	for _, fi := range P.FuncsIn("internal/impl") {
		info := fi.Info()
		for _, br := range bodiesOf(fi) {
			var res *ast.FieldList = br.Type.Results
			if res == nil || len(res.List) == 0 || namedTypeName(info.TypeOf(res.List[0].Type)) != "internal/impl.unmarshalOutput" {
				continue
			}
			defs := localDefs(br.Body, info)
			var isFresh func(e ast.Expr, depth int) bool
			isFresh = func(e ast.Expr, depth int) bool {
				e = unparen(e)
				if depth > 4 {
					return false
				}
				switch x := e.(type) {
				case *ast.CallExpr:
					k := calleeKey(info, x)
					if k == "reflect.New" {
						return true
					}
					if k == "internal/impl.pointerOfValue" && len(x.Args) == 1 {
						return isFresh(x.Args[0], depth+1)
					}
				case *ast.Ident:
					o := info.Uses[x]
					ds := defs[o]
					if len(ds) == 0 {
						return false
					}
					for _, d := range ds {
						if d.idx >= 0 || !isFresh(d.rhs, depth+1) {
							return false
						}
					}
					return true
				}
				return false
			}
			var g *FCFG
			i := 0
			walk(br.Body, func(n ast.Node) bool {
				call, ok := n.(*ast.CallExpr)
				if !ok {
					return true
				}
				k := calleeKey(info, call)
				switch k {
				case "reflect.Value.Set", "internal/impl.pointer.SetPointer", "internal/impl.pointer.AtomicSetPointerIfNil", "internal/impl.pointer.AtomicSetPointer":
				default:
					return true
				}
				if len(call.Args) != 1 || !isFresh(call.Args[0], 0) {
					return true
				}
				i++
				construct := br.Name + " fresh-store#" + itoa(i)
				if k == "internal/impl.pointer.AtomicSetPointerIfNil" {
					R.OK(rule, construct, P.Pos(call), "if-nil primitive")
					return true
				}
				if g == nil {
					g = newCFG(br.Body, info)
				}
				good := g.DominatedByCond(call, func(core ast.Expr, val bool) bool {
					cc, ok := unparen(core).(*ast.CallExpr)
					if !ok || !val {
						return false
					}
					se, ok := cc.Fun.(*ast.SelectorExpr)
					return ok && se.Sel.Name == "IsNil" && len(cc.Args) == 0
				})
				R.Check(good, rule, construct, P.Pos(call), "allocated only when the slot is nil", "a freshly allocated message is stored into the field slot without testing that the slot is nil: a second occurrence of the field on the wire (or Unmarshal with Merge into a populated child) replaces the existing child instead of merging into it")
				return true
			})
		}
	}
	_ = types.Typ
}

// R-REFL-MSG-MERGE: the reflective decoder (package proto) has to merge a
// second occurrence of a singular message field, group, or MessageSet item
// into the message the first occurrence produced, as the table-driven decoder
// does. That is visible in where the target of unmarshalMessage comes from:
// m.Mutable(fd) for singular fields; a fresh list element or map value for
// repeated fields and map entries. A target obtained from m.NewField(fd) and
// stored with m.Set replaces what was decoded before.
func (c *Ctx) ruleReflMsgMerge(rule string, floor int) {
	R, P := c.R, c.P
	R.Rule(rule, "every target of UnmarshalOptions.unmarshalMessage in package proto derives from Message.Mutable (singular field, group, MessageSet item: merge), List.NewElement or Map.NewValue (fresh element of a repeated field / map entry); never from Message.NewField", floor)
	for _, fi := range P.FuncsIn("proto") {
		if fi.Decl.Body == nil {
			continue
		}
		info := fi.Info()
		defs := localDefs(fi.Decl.Body, info)
		var origin func(e ast.Expr, depth int) string
		origin = func(e ast.Expr, depth int) string {
			if depth > 6 {
				return ""
			}
			switch x := unparen(e).(type) {
			case *ast.CallExpr:
				if se, ok := x.Fun.(*ast.SelectorExpr); ok {
					switch se.Sel.Name {
					case "Mutable", "NewElement", "NewValue", "NewField", "AppendMutable":
						return se.Sel.Name
					case "Message":
						return origin(se.X, depth+1)
					}
				}
			case *ast.Ident:
				// a variable may also be assigned scalars on other paths (unmarshalMap's
				// val): NewField anywhere decides; otherwise any recognised origin
				o := info.Uses[x]
				res := ""
				for _, d := range defs[o] {
					r := origin(d.rhs, depth+1)
					if r == "NewField" {
						return r
					}
					if r != "" {
						res = r
					}
				}
				return res
			}
			return ""
		}
		i := 0
		walkAll(fi.Decl.Body, func(n ast.Node) bool {
			call, ok := n.(*ast.CallExpr)
			if !ok || len(call.Args) != 2 {
				return true
			}
			k := calleeKey(info, call)
			if k != "proto.UnmarshalOptions.unmarshalMessage" && k != "proto.UnmarshalOptions.unmarshalMessageSlow" {
				return true
			}
			// top-level entry points pass the caller's message through
			if id, ok := unparen(call.Args[1]).(*ast.Ident); ok {
				if _, isParam := info.Uses[id].(*types.Var); isParam && len(defs[info.Uses[id]]) == 0 {
					return true
				}
			}
			i++
			key := fi.Key + " decode target#" + itoa(i)
			switch o := origin(call.Args[1], 0); o {
			case "Mutable", "NewElement", "NewValue", "AppendMutable":
				R.OK(rule, key, P.Pos(call), "target from "+o)
			case "NewField":
				R.Bad(rule, key, P.Pos(call), "the submessage is decoded into a value obtained from NewField (and stored with Set afterwards): a second occurrence of the field, or a second MessageSet item with the same type id, or Unmarshal with Merge, replaces what was decoded before instead of merging into it; the table-driven decoder merges")
			default:
				R.Unk(rule, key, P.Pos(call), "origin of the decode target `"+exprStr(call.Args[1])+"` not recognised")
			}
			return true
		})
	}
}
