package main

import (
	"go/ast"
	"go/token"
	"go/types"
	"strings"
)

// R-RESOLVER-PROP: the text and JSON codecs resolve Any type URLs and
// extension names through the Resolver of their options. Everything they
// delegate to must use the same resolver: (1) protoregistry.GlobalTypes is
// referenced only as the default assigned to a nil Resolver option; (2) every
// proto.UnmarshalOptions literal built inside the codec (decoding Any.value
// for expansion) carries `Resolver: <codec options>.Resolver`. Otherwise
// extensions known only to the caller's resolver are unknown fields inside an
// expanded Any and are lost on the round trip.
func (c *Ctx) ruleResolverProp(rule string, pkgs []string, floor int) {
	R, P := c.R, c.P
	R.Rule(rule, "in the text/JSON codecs protoregistry.GlobalTypes is only the default assigned to a nil options.Resolver, and every proto.UnmarshalOptions literal built by the codec sets Resolver from the codec's own options", floor)
	for _, pkg := range pkgs {
		for _, fi := range P.FuncsIn(pkg) {
			if fi.Decl.Body == nil {
				continue
			}
			info := fi.Info()
			pm := map[ast.Node]ast.Node(nil)
			i, j := 0, 0
			walkAll(fi.Decl.Body, func(n ast.Node) bool {
				switch x := n.(type) {
				case *ast.SelectorExpr:
					o := info.Uses[x.Sel]
					if o == nil || o.Pkg() == nil || !strings.HasSuffix(o.Pkg().Path(), "/reflect/protoregistry") || (o.Name() != "GlobalTypes" && o.Name() != "GlobalFiles") {
						return true
					}
					if _, isVar := o.(*types.Var); !isVar {
						return true
					}
					if pm == nil {
						pm = parentMap(fi.Decl.Body)
					}
					i++
					good := false
					if as, ok := pm[x].(*ast.AssignStmt); ok && len(as.Lhs) == 1 && len(as.Rhs) == 1 && as.Rhs[0] == ast.Expr(x) {
						if ls, ok := as.Lhs[0].(*ast.SelectorExpr); ok && ls.Sel.Name == "Resolver" {
							if is, ok := pm[pm[as]].(*ast.IfStmt); ok {
								if be, ok := unparen(is.Cond).(*ast.BinaryExpr); ok && be.Op == token.EQL && isNilIdent(info, be.Y) && exprStr(be.X) == exprStr(ls) {
									good = true
								}
							}
						}
					}
					R.Check(good, rule, fi.Key+" "+o.Name()+"#"+itoa(i), P.Pos(x), "default for a nil Resolver option", "the global registry is used directly instead of the codec's Resolver option: types known only to the caller's resolver are not found")
				case *ast.CompositeLit:
					if namedTypeName(info.TypeOf(x)) != "proto.UnmarshalOptions" {
						return true
					}
					j++
					good := false
					for _, el := range x.Elts {
						kv, ok := el.(*ast.KeyValueExpr)
						if !ok {
							continue
						}
						if k, ok := kv.Key.(*ast.Ident); ok && k.Name == "Resolver" {
							if sel, ok := unparen(kv.Value).(*ast.SelectorExpr); ok && sel.Sel.Name == "Resolver" {
								// the base is an options value of this package (MarshalOptions / UnmarshalOptions)
								if tn := namedTypeName(info.TypeOf(sel.X)); strings.HasPrefix(tn, pkg+".") && strings.HasSuffix(tn, "Options") {
									good = true
								}
							}
						}
					}
					R.Check(good, rule, fi.Key+" proto.UnmarshalOptions literal#"+itoa(j), P.Pos(x), "Resolver forwarded from the codec options", "a proto.UnmarshalOptions literal built by the codec does not forward the codec's Resolver: extensions inside the decoded message are looked up in the global registry only, so those known only to the caller's resolver become unknown fields (dropped from an expanded Any)")
				}
				return true
			})
		}
	}
}
