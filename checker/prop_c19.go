package main

var concPkgs = []string{"internal/impl", "internal/filedesc", "internal/filetype", "reflect/protoregistry", "reflect/protodesc", "types/dynamicpb", "internal/protolazy"}

func init() {
	register(&Property{
		ID:         "C19",
		Level:      "other",
		Technique:  "access-discipline rules over lazily initialised shared state: atomic-or-locked access to initialisation flags, publish-last under the mutex, once-guarded state reached only through the once, unsynchronised writes in escaping closures, checked assertions on placeholder-carrying sync.Maps, registry lock prologues (static)",
		Explain:    "Decides structural necessary conditions of safe concurrent first use: (1) every initialisation flag / switch that is accessed atomically anywhere is accessed atomically everywhere or with its mutex held, and is set non-zero only under the mutex as the last write of the initialisation (MessageInfo.initDone, File.once, ExtensionInfo.init, lazy extension atomicOnce); (2) fields and captured variables assigned inside a once.Do closure (the lazily built descriptor indexes, lazily resolved imports) are accessed outside it only through the method that runs the once or after it; (3) closures that are stored into descriptor fields or returned never assign captured variables outside once.Do or a mutex; (4) values loaded from sync.Maps that can hold an in-progress placeholder are asserted to their final basic type with a tested comma-ok; (5) descriptors' lazily built L2 level is read only through lazyInit methods that synchronise with File.lazyInit; (6) every read of a lazily built MessageInfo table outside the builder happens after mi.init() (dominating call, or in every static caller); (7) every protoregistry method touches the tables only after the global lock prologue with the right kind of lock. Also: after a miss, the legacy type/descriptor caches (sync.Map) are published with LoadOrStore and the stored value is returned, so concurrent first users observe one identity; two reviewed exceptions (a per-number enum wrapper cache whose values are compared by value; a bool cache written under its mutex).",
		NotCovered: "deadlock freedom and lock ordering; races through reflect/unsafe pointer arithmetic; readers of MessageInfo's tables that are reached only through function values (dynamic calls) are judged by the init() call in their own body; memory-model subtleties beyond the access discipline.",
		Quick:      all("./internal/impl", "./internal/filedesc", "./internal/filetype", "./reflect/protoregistry", "./reflect/protodesc", "./types/dynamicpb"),
		Thorough:   all("./..."),
		Run: func(c *Ctx) {
			c.ruleCacheCanonical("R-CACHE-CANONICAL", cacheCanonicalExempt, 5)
			c.ruleAtomicFlags("R-ATOMIC-FLAG", concPkgs, 10)
			c.ruleOnceGuard("R-ONCE-GUARD", concPkgs, 17)
			c.ruleClosureSharedWrite("R-CLOSURE-SHARED-WRITE", concPkgs, 10)
			c.ruleSentinelAssert("R-SENTINEL-ASSERT", concPkgs, 1)
			c.ruleL2ViaLazy("R-L2-VIA-LAZY")
			c.ruleInitBeforeUse("R-INIT-BEFORE-USE", initBeforeUseExempt, 10)
			c.ruleRegistryLock("R-REG-LOCK")
		},
	})
}

var initBeforeUseExempt = map[string]string{
	"internal/impl.(*MessageInfo).lazyUnmarshal": "its only init-less entry is Export.UnmarshalField, called by generated getters when a field is present but still lazy: such a message was filled by this MessageInfo's own unmarshal (which ran init()), and handing the message to another goroutine orders that init before this read",
	"internal/impl.IsLazy":                       "exported for tests only (doc comment): inspects an already populated message from the test goroutine; not part of the concurrent first-use surface",
}

var cacheCanonicalExempt = map[string]string{
	"internal/impl.needsInitCheckLocked publishes into needsInitCheckMap": "runs with needsInitCheckMu held (callers lock it; the suffix Locked states the contract) and stores a bool, which has no identity: all goroutines compute and observe the same value",
	"internal/impl.(*legacyEnumType).New publishes into t.m":              "per-number cache of enum wrappers: the wrappers are value-equal (same number, type and Go type) and are compared by value, so concurrent first users that keep their own wrapper observe the same behaviour as a sequential program; only pointer identity can differ (reported by a seed agent, reviewed)",
}
