package main

import (
	"go/ast"
	"go/token"
	"go/types"
	"sort"
	"strconv"
	"strings"
)

// R-WKT-RANGE: the JSON forms of Duration and Timestamp are defined only for
// in-range values. In the marshal direction, every variable that holds the
// seconds/nanos field (identified by following its definition back to
// Fields().ByNumber(genid.X_field_number)) must be compared with both
// documented bounds, with an error return on the failing side, before any
// byte is written. In the unmarshal direction, every value stored into those
// fields (m.Set(fd, ValueOf…(v))) must have passed both bounds first, unless
// the value comes from a source that is range-limited by construction (table).

type wktRange struct{ lo, hi int64 }

var wktRanges = map[string]wktRange{
	"Duration_Seconds_field_number":  {-315576000000, 315576000000},
	"Duration_Nanos_field_number":    {-999999999, 999999999},
	"Timestamp_Seconds_field_number": {-62135596800, 253402300799},
	"Timestamp_Nanos_field_number":   {0, 999999999},
}

// wktRangeByConstruction: stored values that need no explicit comparison.
var wktRangeByConstruction = map[string]string{
	"encoding/protojson.decoder.unmarshalDuration Duration_Nanos_field_number":   "nanos is parseDuration's second result: at most nine fraction digits are scanned (R-SCAN-DURATION decides the grammar), so |nanos| <= 999999999",
	"encoding/protojson.decoder.unmarshalTimestamp Timestamp_Nanos_field_number": "time.Time.Nanosecond() is in [0, 999999999] by the standard library's contract",
}

// localDefs maps each local variable to the expressions assigned to it.
type defSite struct {
	rhs ast.Expr
	idx int // result index when rhs is a multi-value call, else -1
}

func localDefs(body ast.Node, info *types.Info) map[types.Object][]defSite {
	m := map[types.Object][]defSite{}
	add := func(lhs ast.Expr, d defSite) {
		id, ok := unparen(lhs).(*ast.Ident)
		if !ok || id.Name == "_" {
			return
		}
		o := info.Defs[id]
		if o == nil {
			o = info.Uses[id]
		}
		if o != nil {
			m[o] = append(m[o], d)
		}
	}
	walkAll(body, func(n ast.Node) bool {
		switch s := n.(type) {
		case *ast.AssignStmt:
			if len(s.Lhs) == len(s.Rhs) {
				for i := range s.Lhs {
					add(s.Lhs[i], defSite{s.Rhs[i], -1})
				}
			} else if len(s.Rhs) == 1 {
				for i := range s.Lhs {
					add(s.Lhs[i], defSite{s.Rhs[0], i})
				}
			}
		case *ast.ValueSpec:
			if len(s.Names) == len(s.Values) {
				for i := range s.Names {
					add(s.Names[i], defSite{s.Values[i], -1})
				}
			}
		}
		return true
	})
	return m
}

// genidConstsIn: names of internal/genid constants reachable from e through
// single-definition local variables (depth-bounded).
func genidConstsIn(e ast.Node, info *types.Info, defs map[types.Object][]defSite, depth int, out map[string]bool) {
	if depth > 6 || e == nil {
		return
	}
	walkAll(e, func(n ast.Node) bool {
		id, ok := n.(*ast.Ident)
		if !ok {
			return true
		}
		o := info.Uses[id]
		if o == nil {
			return true
		}
		if c, ok := o.(*types.Const); ok && c.Pkg() != nil && strings.HasSuffix(c.Pkg().Path(), "/internal/genid") {
			out[c.Name()] = true
			return true
		}
		if ds := defs[o]; len(ds) == 1 {
			genidConstsIn(ds[0].rhs, info, defs, depth+1, out)
		}
		return true
	})
}

func boundCore(info *types.Info, core ast.Expr, val bool, v types.Object, bound int64, lower bool) bool {
	be, ok := unparen(core).(*ast.BinaryExpr)
	if !ok {
		return false
	}
	op := be.Op
	var cexpr ast.Expr
	if id, ok := unparen(be.X).(*ast.Ident); ok && info.Uses[id] == v {
		cexpr = be.Y
	} else if id, ok := unparen(be.Y).(*ast.Ident); ok && info.Uses[id] == v {
		cexpr = be.X
		op = flipOp(op)
	} else {
		return false
	}
	k, ok := constInt(info, cexpr)
	if !ok {
		return false
	}
	// normalise to a fact "v OP k" that holds on this edge
	if !val {
		switch op {
		case token.LSS:
			op = token.GEQ
		case token.LEQ:
			op = token.GTR
		case token.GTR:
			op = token.LEQ
		case token.GEQ:
			op = token.LSS
		default:
			return false
		}
	}
	if lower { // need v >= bound
		return (op == token.GEQ && k == bound) || (op == token.GTR && k == bound-1)
	}
	return (op == token.LEQ && k == bound) || (op == token.LSS && k == bound+1)
}

func (c *Ctx) ruleWKTRange(rule string) {
	R, P := c.R, c.P
	R.Rule(rule, "Duration/Timestamp JSON conversion: every seconds/nanos variable read from the message is compared with both documented bounds (error return on failure) before any JSON output is written, and every value stored into those fields while parsing has passed both bounds (or is range-limited by construction, table)", 8)
	for _, fi := range P.FuncsIn("encoding/protojson") {
		if fi.Decl.Body == nil {
			continue
		}
		info := fi.Info()
		defs := localDefs(fi.Decl.Body, info)
		var g *FCFG
		cfgOf := func() *FCFG {
			if g == nil {
				g = fi.CFG()
			}
			return g
		}
		dominatedBoth := func(site ast.Node, v types.Object, r wktRange) (bool, bool) {
			lo := cfgOf().DominatedByCond(site, func(core ast.Expr, val bool) bool { return boundCore(info, core, val, v, r.lo, true) })
			hi := cfgOf().DominatedByCond(site, func(core ast.Expr, val bool) bool { return boundCore(info, core, val, v, r.hi, false) })
			return lo, hi
		}
		// marshal direction: variables defined as <x>.Int() with a chain to a ranged field constant
		var writes []*ast.CallExpr
		walk(fi.Decl.Body, func(n ast.Node) bool {
			if call, ok := n.(*ast.CallExpr); ok {
				if k := calleeKey(info, call); strings.HasPrefix(k, "internal/encoding/json.(*Encoder).Write") {
					writes = append(writes, call)
				}
			}
			return true
		})
		var objs []types.Object
		for o := range defs {
			objs = append(objs, o)
		}
		sort.Slice(objs, func(i, j int) bool { return objs[i].Pos() < objs[j].Pos() })
		for _, o := range objs {
			ds := defs[o]
			if len(ds) == 0 {
				continue
			}
			// the first definition decides what the variable holds; later
			// reassignments (sign normalisation after the checks) keep the object
			sort.Slice(ds, func(i, j int) bool { return ds[i].rhs.Pos() < ds[j].rhs.Pos() })
			call, ok := unparen(ds[0].rhs).(*ast.CallExpr)
			if !ok || calleeKey(info, call) != "reflect/protoreflect.Value.Int" {
				continue
			}
			ks := map[string]bool{}
			genidConstsIn(call, info, defs, 0, ks)
			for _, k := range sortedSet(ks) {
				r, ok := wktRanges[k]
				if !ok {
					continue
				}
				construct := fi.Key + " read " + k
				if len(writes) == 0 {
					R.Unk(rule, construct, P.Pos(call), "the ranged field is read but no JSON write was found in this function: cannot place the obligation")
					continue
				}
				okAll := true
				for _, w := range writes {
					lo, hi := dominatedBoth(w, o, r)
					if !lo || !hi {
						okAll = false
						R.Bad(rule, construct, P.Pos(w), "JSON output is written on a path where "+o.Name()+" was not compared with its documented "+map[bool]string{true: "upper", false: "lower"}[lo]+" bound ("+itoa64(r.lo)+" .. "+itoa64(r.hi)+"): out-of-range values would be marshaled")
						break
					}
				}
				if okAll {
					R.OK(rule, construct, P.Pos(call), o.Name()+" is compared with "+itoa64(r.lo)+" and "+itoa64(r.hi)+" before every JSON write")
				}
			}
		}
		// unmarshal direction: m.Set(fd, ValueOf…(arg))
		walk(fi.Decl.Body, func(n ast.Node) bool {
			call, ok := n.(*ast.CallExpr)
			if !ok || calleeKey(info, call) != "reflect/protoreflect.Message.Set" || len(call.Args) != 2 {
				return true
			}
			ks := map[string]bool{}
			genidConstsIn(call.Args[0], info, defs, 0, ks)
			for _, k := range sortedSet(ks) {
				r, ok := wktRanges[k]
				if !ok {
					continue
				}
				construct := fi.Key + " store " + k
				if why, ok := wktRangeByConstruction[fi.Key+" "+k]; ok {
					R.Exempt(rule, construct, P.Pos(call), why)
					continue
				}
				inner, ok := unparen(call.Args[1]).(*ast.CallExpr)
				var v types.Object
				if ok && len(inner.Args) == 1 {
					if id, ok := unparen(inner.Args[0]).(*ast.Ident); ok {
						v = info.Uses[id]
					}
				}
				if v == nil {
					R.Unk(rule, construct, P.Pos(call), "stored value is not a plain variable: cannot relate it to a range comparison")
					continue
				}
				lo, hi := dominatedBoth(call, v, r)
				R.Check(lo && hi, rule, construct, P.Pos(call), v.Name()+" is compared with "+itoa64(r.lo)+" and "+itoa64(r.hi)+" before the store",
					"value stored into the field was not compared with both documented bounds ("+itoa64(r.lo)+" .. "+itoa64(r.hi)+") on every path: out-of-range input would be accepted")
			}
			return true
		})
	}
}

func itoa64(v int64) string {
	if v < 0 {
		return "-" + itoa(int(-v))
	}
	return itoa(int(v))
}

// R-WKT-NO-OVERFLOW: the Duration/Timestamp conversions compute on int64 field
// values whose documented ranges are large (|seconds| ≤ 315576000000,
// |nanos| ≤ 999999999): a product of two such values does not fit in int64
// (3.2e20 > 9.2e18), so its sign and magnitude are meaningless. Every
// multiplication (or left shift) of two non-constant 64-bit integers in these
// functions is bounded by interval arithmetic over the documented ranges,
// int32-typed operands and constants; a product that can exceed int64 is a
// violation, an operand without a known bound makes it undecided.
func (c *Ctx) ruleWKTNoOverflow(rule string) {
	R, P := c.R, c.P
	R.Rule(rule, "in every protojson function that reads or stores Duration/Timestamp seconds or nanos, each multiplication or left shift of non-constant 64-bit integers is shown by interval arithmetic (documented field ranges, 32-bit operand types, constants) to fit in int64", 4)
	const maxI64 = float64(9223372036854775807)
	// WKT conversion functions: those that mention a ranged field constant, and
	// the package's own helpers they call (parseDuration computes the seconds
	// that unmarshalDuration stores)
	isRanged := func(fi *FuncInfo) bool {
		if fi.Decl.Body == nil {
			return false
		}
		info := fi.Info()
		ks := map[string]bool{}
		genidConstsIn(fi.Decl.Body, info, localDefs(fi.Decl.Body, info), 0, ks)
		for k := range ks {
			if _, ok := wktRanges[k]; ok {
				return true
			}
		}
		return false
	}
	helpers := map[string]bool{}
	for _, fi := range P.FuncsIn("encoding/protojson") {
		if !isRanged(fi) {
			continue
		}
		info := fi.Info()
		walkAll(fi.Decl.Body, func(n ast.Node) bool {
			if call, ok := n.(*ast.CallExpr); ok {
				if k := calleeKey(info, call); strings.HasPrefix(k, "encoding/protojson.") && !strings.Contains(k, "coder.") {
					helpers[k] = true
				}
			}
			return true
		})
	}
	for _, fi := range P.FuncsIn("encoding/protojson") {
		if fi.Decl.Body == nil {
			continue
		}
		info := fi.Info()
		defs := localDefs(fi.Decl.Body, info)
		if !isRanged(fi) && !helpers[fi.Key] {
			continue
		}
		// magnitude bound of an expression (absolute value), ok=false if unknown
		var mag func(e ast.Expr, depth int) (float64, bool)
		mag = func(e ast.Expr, depth int) (float64, bool) {
			e = unparen(e)
			if v, ok := constInt(info, e); ok {
				if v < 0 {
					v = -v
				}
				return float64(v), true
			}
			if depth > 5 {
				return 0, false
			}
			if t, ok := info.TypeOf(e).Underlying().(*types.Basic); ok {
				switch t.Kind() {
				case types.Int32, types.Uint32, types.Int16, types.Uint16, types.Int8, types.Uint8:
					return 4294967295, true
				}
			}
			switch x := e.(type) {
			case *ast.Ident:
				o := info.Uses[x]
				best, have := 0.0, false
				for _, d := range defs[o] {
					// a variable read from a ranged field
					cs := map[string]bool{}
					genidConstsIn(d.rhs, info, defs, 0, cs)
					for k := range cs {
						if r, ok := wktRanges[k]; ok {
							m := float64(r.hi)
							if float64(-r.lo) > m {
								m = float64(-r.lo)
							}
							if m > best {
								best = m
							}
							have = true
						}
					}
					if !have {
						if m, ok := mag(d.rhs, depth+1); ok {
							if m > best {
								best = m
							}
							have = true
						} else {
							return 0, false
						}
					}
				}
				return best, have
			case *ast.CallExpr:
				if tv, ok := info.Types[x.Fun]; ok && tv.IsType() && len(x.Args) == 1 {
					return mag(x.Args[0], depth+1)
				}
				if calleeKey(info, x) == "builtin.len" {
					return 2147483647, true
				}
			case *ast.UnaryExpr:
				if x.Op == token.SUB {
					return mag(x.X, depth+1)
				}
			}
			return 0, false
		}
		n := 0
		walk(fi.Decl.Body, func(node ast.Node) bool {
			be, ok := node.(*ast.BinaryExpr)
			if !ok || (be.Op != token.MUL && be.Op != token.SHL) {
				return true
			}
			t, ok := info.TypeOf(be).Underlying().(*types.Basic)
			if !ok || (t.Kind() != types.Int64 && t.Kind() != types.Int && t.Kind() != types.Uint64) {
				return true
			}
			if _, isConst := constInt(info, be); isConst {
				return true
			}
			n++
			construct := fi.Key + " product#" + itoa(n)
			a, okA := mag(be.X, 0)
			b, okB := mag(be.Y, 0)
			if be.Op == token.SHL {
				if okB && b < 63 {
					b = float64(uint64(1) << uint(b))
				} else {
					okB = false
				}
			}
			// an accumulator: one operand is a variable that is assigned this very product
			accum := ""
			for _, side := range []ast.Expr{be.X, be.Y} {
				if id, ok := unparen(side).(*ast.Ident); ok {
					for _, d := range defs[info.Uses[id]] {
						if d.rhs.Pos() <= be.Pos() && be.End() <= d.rhs.End() {
							accum = id.Name
						}
					}
				}
			}
			switch {
			case accum != "" && (!okA || !okB):
				R.Bad(rule, construct, P.Pos(be), "`"+accum+"` accumulates "+exprStr(be)+" over the digits of the input with no bound on their number and no overflow test: an integer part that does not fit in int64 wraps around, and only the wrapped value reaches the range check, so out-of-range input is accepted as some in-range value")
			case !okA || !okB:
				R.Unk(rule, construct, P.Pos(be), "no bound known for an operand of "+exprStr(be)+": cannot show that the product fits in int64")
			case a*b > maxI64:
				R.Bad(rule, construct, P.Pos(be), exprStr(be)+" can reach "+fmtFloat(a)+" × "+fmtFloat(b)+", beyond int64: for in-range field values the result wraps around, so its sign and magnitude are arbitrary")
			default:
				R.OK(rule, construct, P.Pos(be), "bounded by "+fmtFloat(a)+" × "+fmtFloat(b))
			}
			return true
		})
		R.OK(rule, fi.Key+" scanned", P.Pos(fi.Decl), itoa(n)+" non-constant products")
	}
}

func fmtFloat(f float64) string {
	return strings.TrimSuffix(strings.TrimSuffix(strconv.FormatFloat(f, 'g', 4, 64), "e+00"), ".0")
}

// R-FIELDMASK-REVERSIBLE: the JSON reader of FieldMask maps every path element
// through one function F (strs.JSONSnakeCase) before storing it. The writer
// emits G(s) for a stored path s; it may do so only where F(G(s)) == s has
// been established, otherwise the path read back differs from the one written
// ("fooBar" → "fooBar" → "foo_bar").
func (c *Ctx) ruleFieldMaskReversible(rule string) {
	R, P := c.R, c.P
	R.Rule(rule, "FieldMask JSON: the writer emits the converted path only on the established fact `s == F(converted)` where F is the very function the reader applies to each element before storing it", 2)
	fr := c.need(rule, "encoding/protojson.decoder.unmarshalFieldMask")
	fw := c.need(rule, "encoding/protojson.encoder.marshalFieldMask")
	if fr == nil || fw == nil {
		return
	}
	// reader: list.Append(ValueOfString(s)), s := F(s0)
	rinfo := fr.Info()
	rdefs := localDefs(fr.Decl.Body, rinfo)
	F := ""
	walk(fr.Decl.Body, func(n ast.Node) bool {
		call, ok := n.(*ast.CallExpr)
		if !ok || calleeKey(rinfo, call) != "reflect/protoreflect.List.Append" || len(call.Args) != 1 {
			return true
		}
		walk(call.Args[0], func(x ast.Node) bool {
			if id, ok := x.(*ast.Ident); ok {
				for _, d := range rdefs[rinfo.Uses[id]] {
					if dc, ok := unparen(d.rhs).(*ast.CallExpr); ok {
						if k := calleeKey(rinfo, dc); strings.HasPrefix(k, "internal/strs.") {
							F = k
						}
					}
				}
			}
			return true
		})
		return true
	})
	if F == "" {
		R.Unk(rule, fr.Key+" element conversion", P.Pos(fr.Decl), "the conversion applied to each element before it is stored was not found")
		return
	}
	R.OK(rule, fr.Key+" element conversion", P.Pos(fr.Decl), "elements stored through "+F)
	winfo := fw.Info()
	wdefs := localDefs(fw.Decl.Body, winfo)
	g := fw.CFG()
	n := 0
	walk(fw.Decl.Body, func(node ast.Node) bool {
		as, ok := node.(*ast.AssignStmt)
		if !ok || len(as.Rhs) != 1 {
			return true
		}
		call, ok := unparen(as.Rhs[0]).(*ast.CallExpr)
		if !ok || calleeKey(winfo, call) != "builtin.append" || len(call.Args) != 2 {
			return true
		}
		id, ok := unparen(call.Args[1]).(*ast.Ident)
		if !ok {
			return true
		}
		cc := winfo.Uses[id]
		// cc := G(s)
		var sObj types.Object
		for _, d := range wdefs[cc] {
			if dc, ok := unparen(d.rhs).(*ast.CallExpr); ok && strings.HasPrefix(calleeKey(winfo, dc), "internal/strs.") && len(dc.Args) == 1 {
				sObj = objOf(winfo, dc.Args[0])
			}
		}
		if sObj == nil {
			return true
		}
		n++
		good := g.DominatedByCond(as, func(core ast.Expr, val bool) bool {
			be, ok := unparen(core).(*ast.BinaryExpr)
			if !ok || !((be.Op == token.NEQ && !val) || (be.Op == token.EQL && val)) {
				return false
			}
			match := func(a, b ast.Expr) bool {
				if objOf(winfo, a) != sObj {
					return false
				}
				fc, ok := unparen(b).(*ast.CallExpr)
				return ok && calleeKey(winfo, fc) == F && len(fc.Args) == 1 && objOf(winfo, fc.Args[0]) == cc
			}
			return match(be.X, be.Y) || match(be.Y, be.X)
		})
		R.Check(good, rule, fw.Key+" emitted path", P.Pos(as), "emitted only when "+sObj.Name()+" == "+shortKey(F)+"("+id.Name+")", "the converted path is emitted on a path where `"+sObj.Name()+" == "+shortKey(F)+"("+id.Name+")` has not been established: the reader applies "+shortKey(F)+" to it and stores a different path (e.g. \"fooBar\" is written unchanged and read back as \"foo_bar\")")
		return true
	})
	if n == 0 {
		R.Unk(rule, fw.Key+" emitted path", P.Pos(fw.Decl), "append of the converted path not found")
	}
}
