package main

import (
	"go/ast"
	"go/token"
	"go/types"
	"strings"
)

// R-DECODE-SIBLINGS: every hand-unrolled tag loop of the fast-path decoder
// rejects invalid field numbers before using them, rejects a mismatched end
// group, rejects a missing end group after the loop, and reports the number of
// bytes consumed.
func (c *Ctx) ruleDecodeSiblings(rule string) {
	R, P := c.R, c.P
	R.Rule(rule, "in each tag loop of the fast-path decoder (eager, lazy, single lazy field): the field number is converted from the tag only on the false edge of both `n < MinValidNumber` and `n > MaxValidNumber` (whose branch returns an error); an end-group tag must match the group being decoded (`num != groupTag` returns an error, then groupTag is cleared); the success return is reached only with groupTag == 0 established after the loop; out.n is the number of bytes consumed; the error of a field coder ends decoding only if it is not errUnknown (wrong wire type: the record is skipped as unknown)", 8)
	refersTo := func(info *types.Info, e ast.Node, name string) bool {
		found := false
		walk(e, func(n ast.Node) bool {
			if id, ok := n.(*ast.Ident); ok {
				if o := info.Uses[id]; o != nil && o.Name() == name {
					found = true
				}
			}
			return true
		})
		return found
	}
	returnsErr := func(info *types.Info, b *ast.BlockStmt) bool {
		ok := false
		walk(b, func(n ast.Node) bool {
			if rs, isRet := n.(*ast.ReturnStmt); isRet && len(rs.Results) > 0 && !isNilIdent(info, rs.Results[len(rs.Results)-1]) {
				ok = true
			}
			return true
		})
		return ok
	}
	for _, e := range []struct {
		key    string
		groups bool
	}{
		{"internal/impl.(*MessageInfo).unmarshalPointerEager", true},
		{"internal/impl.(*MessageInfo).unmarshalPointerLazy", true},
		{"internal/impl.(*MessageInfo).unmarshalField", false},
	} {
		fi := c.need(rule, e.key)
		if fi == nil {
			continue
		}
		info := fi.Info()
		g := fi.CFG()
		// (a) number range
		var conv []*ast.CallExpr // protowire.Number(n) conversions
		walk(fi.Decl.Body, func(n ast.Node) bool {
			if call, ok := n.(*ast.CallExpr); ok && len(call.Args) == 1 {
				if tv, ok := info.Types[call.Fun]; ok && tv.IsType() && namedTypeName(tv.Type) == "encoding/protowire.Number" {
					if b, ok := info.TypeOf(call.Args[0]).Underlying().(*types.Basic); ok && b.Kind() == types.Uint64 {
						conv = append(conv, call)
					}
				}
			}
			return true
		})
		if len(conv) == 0 {
			R.Unk(rule, e.key+" number range", P.Pos(fi.Decl), "conversion of the tag's number to protowire.Number not found")
		}
		for i, cv := range conv {
			arg := objOf(info, cv.Args[0])
			lo := g.DominatedByCond(cv, func(core ast.Expr, val bool) bool {
				be, ok := unparen(core).(*ast.BinaryExpr)
				return ok && !val && be.Op == token.LSS && objOf(info, be.X) == arg && refersTo(info, be.Y, "MinValidNumber")
			})
			hi := g.DominatedByCond(cv, func(core ast.Expr, val bool) bool {
				be, ok := unparen(core).(*ast.BinaryExpr)
				return ok && !val && be.Op == token.GTR && objOf(info, be.X) == arg && refersTo(info, be.Y, "MaxValidNumber")
			})
			R.Check(lo && hi, rule, e.key+" number range #"+itoa(i+1), P.Pos(cv), "number used only within [MinValidNumber, MaxValidNumber]", "the tag's field number is used without having been rejected when below MinValidNumber or above MaxValidNumber: invalid numbers (0, or beyond 2^29-1) would index the coder tables")
		}
		// (e) a field coder answering errUnknown (wrong wire type for this
		// field) does not end decoding: the record is skipped as an unknown
		// field. Every return of the coder's error is therefore on the true
		// edge of `err != errUnknown`.
		{
			var errObj types.Object
			walk(fi.Decl.Body, func(n ast.Node) bool {
				as, ok := n.(*ast.AssignStmt)
				if !ok || len(as.Rhs) != 1 || len(as.Lhs) != 2 {
					return true
				}
				call, ok := as.Rhs[0].(*ast.CallExpr)
				if !ok {
					return true
				}
				if se, ok := call.Fun.(*ast.SelectorExpr); ok && se.Sel.Name == "unmarshal" && strings.HasSuffix(exprStr(se.X), ".funcs") {
					if id, ok := as.Lhs[1].(*ast.Ident); ok {
						errObj = info.Defs[id]
						if errObj == nil {
							errObj = info.Uses[id]
						}
					}
				}
				return true
			})
			if errObj == nil {
				R.Unk(rule, e.key+" errUnknown", P.Pos(fi.Decl), "call of the field's unmarshal function not found")
			} else {
				k := 0
				skip := containsCall(info, fi.Decl.Body, "encoding/protowire.ConsumeFieldValue") != nil
				walk(fi.Decl.Body, func(n ast.Node) bool {
					rs, ok := n.(*ast.ReturnStmt)
					if !ok || len(rs.Results) == 0 {
						return true
					}
					id, ok := unparen(rs.Results[len(rs.Results)-1]).(*ast.Ident)
					if !ok || info.Uses[id] != errObj {
						return true
					}
					k++
					good := g.DominatedByCond(rs, func(core ast.Expr, val bool) bool {
						be, ok := unparen(core).(*ast.BinaryExpr)
						if !ok {
							return false
						}
						x, y := be.X, be.Y
						if objOf(info, y) == errObj {
							x, y = y, x
						}
						if objOf(info, x) != errObj || !refersTo(info, y, "errUnknown") {
							return false
						}
						return (be.Op == token.NEQ && val) || (be.Op == token.EQL && !val)
					})
					R.Check(good, rule, e.key+" errUnknown return#"+itoa(k), P.Pos(rs), "the coder's error ends decoding only if it is not errUnknown", "the field coder's error is returned without excluding errUnknown: a record with this field's number but another wire type ends decoding (the lazily deferred decode stops short, or Unmarshal fails) instead of being kept as an unknown field")
					return true
				})
				R.Check(skip && k > 0, rule, e.key+" errUnknown skip", P.Pos(fi.Decl), "unknown records are skipped with ConsumeFieldValue", "no skip of an unknown record (protowire.ConsumeFieldValue) in the loop, or the coder's error is never returned")
			}
		}
		if !e.groups {
			continue
		}
		// (b) end group
		var eg *ast.IfStmt
		walk(fi.Decl.Body, func(n ast.Node) bool {
			if is, ok := n.(*ast.IfStmt); ok && eg == nil {
				if be, ok := unparen(is.Cond).(*ast.BinaryExpr); ok && be.Op == token.EQL && refersTo(info, be.Y, "EndGroupType") {
					eg = is
				}
			}
			return true
		})
		if eg == nil {
			R.Bad(rule, e.key+" end group", P.Pos(fi.Decl), "the loop never tests for an end-group tag: a group would run to the end of the buffer")
		} else {
			mismatch, cleared, breaks := false, false, false
			for _, st := range eg.Body.List {
				switch x := st.(type) {
				case *ast.IfStmt:
					if be, ok := unparen(x.Cond).(*ast.BinaryExpr); ok && be.Op == token.NEQ && refersTo(info, be, "groupTag") && returnsErr(info, x.Body) {
						mismatch = true
					}
				case *ast.AssignStmt:
					if len(x.Lhs) == 1 && exprStr(x.Lhs[0]) == "groupTag" {
						if v, ok := constInt(info, x.Rhs[0]); ok && v == 0 {
							cleared = true
						}
					}
				case *ast.BranchStmt:
					if x.Tok == token.BREAK {
						breaks = true
					}
				}
			}
			R.Check(mismatch && cleared && breaks, rule, e.key+" end group", P.Pos(eg), "mismatch rejected, group closed, loop left", "an end-group tag is not handled as: reject if it is not this group's tag, mark the group closed, leave the loop")
		}
		// (c) missing end group + (f) out.n
		var final *ast.ReturnStmt
		walk(fi.Decl.Body, func(n ast.Node) bool {
			if rs, ok := n.(*ast.ReturnStmt); ok && len(rs.Results) == 2 && isNilIdent(info, rs.Results[1]) {
				final = rs
			}
			return true
		})
		if final == nil {
			R.Unk(rule, e.key+" success return", P.Pos(fi.Decl), "success return not found")
			continue
		}
		closed := g.DominatedByCond(final, func(core ast.Expr, val bool) bool {
			be, ok := unparen(core).(*ast.BinaryExpr)
			if !ok || !refersTo(info, be.X, "groupTag") {
				return false
			}
			v, isC := constInt(info, be.Y)
			return isC && v == 0 && ((be.Op == token.NEQ && !val) || (be.Op == token.EQL && val))
		})
		R.Check(closed, rule, e.key+" missing end group", P.Pos(final), "success only with groupTag == 0", "the decoder can report success although the group's end marker was never seen")
		setsN := g.DominatedByNode(final, func(n ast.Node) bool {
			as, ok := n.(*ast.AssignStmt)
			if !ok || len(as.Lhs) != 1 || len(as.Rhs) != 1 || !strings.HasSuffix(exprStr(as.Lhs[0]), ".n") {
				return false
			}
			be, ok := unparen(as.Rhs[0]).(*ast.BinaryExpr)
			return ok && be.Op == token.SUB && strings.HasPrefix(exprStr(be.Y), "len(")
		})
		R.Check(setsN, rule, e.key+" consumed count", P.Pos(final), "out.n = start - len(b)", "the success return does not report the number of bytes consumed as the difference of the remaining length")
	}
}

// R-CONSUMETAG-RANGE: protowire.ConsumeTag rejects field numbers below
// MinValidNumber but not above MaxValidNumber (the tag varint can carry up to
// 2^61). Every decoder loop built on ConsumeTag must reject those itself
// before it acts on the number, as its siblings do; otherwise Unmarshal
// accepts malformed input that the validator and the other decoders reject.
var consumeTagRangeExempt = map[string]string{
	"internal/encoding/messageset.SizeUnknown":   "re-reads the message's own unknown-field bytes, which the decoder stored after its range check; not a decoder of external input",
	"internal/encoding/messageset.AppendUnknown": "re-reads the message's own unknown-field bytes, which the decoder stored after its range check; not a decoder of external input",
}

func (c *Ctx) ruleConsumeTagRange(rule string, pkgs []string, floor int) {
	R, P := c.R, c.P
	R.Rule(rule, "every call of protowire.ConsumeTag in the binary decoders is followed, before any other use of the returned number, by the rejection `num > protowire.MaxValidNumber` (error return), as in all sibling loops", floor)
	for _, pkg := range pkgs {
		for _, fi := range P.FuncsIn(pkg) {
			if fi.Decl.Body == nil {
				continue
			}
			info := fi.Info()
			var g *FCFG
			i := 0
			walkAll(fi.Decl.Body, func(n ast.Node) bool {
				as, ok := n.(*ast.AssignStmt)
				if !ok || len(as.Rhs) != 1 || len(as.Lhs) != 3 {
					return true
				}
				call, ok := as.Rhs[0].(*ast.CallExpr)
				if !ok || calleeKey(info, call) != "encoding/protowire.ConsumeTag" {
					return true
				}
				id, ok := as.Lhs[0].(*ast.Ident)
				if !ok || id.Name == "_" {
					return true
				}
				numObj := info.Defs[id]
				if numObj == nil {
					numObj = info.Uses[id]
				}
				i++
				construct := fi.Key + " ConsumeTag#" + itoa(i)
				if why, ok := consumeTagRangeExempt[fi.Key]; ok {
					R.Exempt(rule, construct, P.Pos(call), why)
					return true
				}
				if g == nil {
					g = fi.CFG()
				}
				// every use of num other than the range test itself is dominated by the false edge of num > MaxValidNumber
				bad := ""
				uses := 0
				walkAll(fi.Decl.Body, func(x ast.Node) bool {
					uid, ok := x.(*ast.Ident)
					if !ok || info.Uses[uid] != numObj || uid.Pos() < as.End() {
						return true
					}
					uses++
					dom := g.DominatedByCond(uid, func(core ast.Expr, val bool) bool {
						be, ok := unparen(core).(*ast.BinaryExpr)
						if !ok || val {
							return false
						}
						x, y, op := be.X, be.Y, be.Op
						if objOf(info, y) == numObj {
							x, y, op = y, x, flipOp(op)
						}
						if op != token.GTR || objOf(info, x) != numObj {
							return false
						}
						nm, isC := labelName(info, y)
						return isC && nm == "MaxValidNumber"
					})
					if !dom {
						// the range test itself
						isTest := false
						g2 := false
						_ = g2
						walkAll(fi.Decl.Body, func(y ast.Node) bool {
							if be, ok := y.(*ast.BinaryExpr); ok && (be.Op == token.GTR || be.Op == token.LSS) && (be.X == ast.Expr(uid) || be.Y == ast.Expr(uid)) {
								other := be.Y
								if be.Y == ast.Expr(uid) {
									other = be.X
								}
								if nm, isC := labelName(info, other); isC && nm == "MaxValidNumber" {
									isTest = true
								}
							}
							return true
						})
						if !isTest && bad == "" {
							bad = P.Pos(uid)
						}
					}
					return true
				})
				switch {
				case uses == 0:
					R.OK(rule, construct, P.Pos(call), "number not used")
				case bad != "":
					R.Bad(rule, construct, P.Pos(call), "the field number returned by ConsumeTag is used at "+bad+" without having been rejected when above protowire.MaxValidNumber: records with numbers ≥ 2^29 are accepted (skipped as unknown) although the validator and the sibling decoders reject them")
				default:
					R.OK(rule, construct, P.Pos(call), "number used only after the MaxValidNumber rejection")
				}
				return true
			})
		}
	}
}

// R-REFL-ERR-SKIP: the reflection decoder (package proto) treats the errUnknown
// answer of a field decoder as "unknown record: skip it" and returns every
// other error. A skip (protowire.ConsumeFieldValue) performed under a weaker
// condition than `err == errUnknown` swallows real decode errors (invalid
// UTF-8 in a map key or value becomes the empty string).
func (c *Ctx) ruleReflErrSkip(rule string, floor int) {
	R, P := c.R, c.P
	R.Rule(rule, "in the reflection decoder's tag loops every skip of a record (protowire.ConsumeFieldValue) after a field decoder ran is on the true edge of `err == errUnknown`, and the decoder's error is returned otherwise", floor)
	for _, fi := range P.FuncsIn("proto") {
		if fi.Decl.Body == nil {
			continue
		}
		info := fi.Info()
		// err variable assigned from an UnmarshalOptions.unmarshal* call
		var errObj types.Object
		walk(fi.Decl.Body, func(n ast.Node) bool {
			as, ok := n.(*ast.AssignStmt)
			if !ok || len(as.Rhs) != 1 || len(as.Lhs) < 2 {
				return true
			}
			call, ok := as.Rhs[0].(*ast.CallExpr)
			if !ok || !strings.HasPrefix(calleeKey(info, call), "proto.UnmarshalOptions.unmarshal") {
				return true
			}
			if id, ok := as.Lhs[len(as.Lhs)-1].(*ast.Ident); ok && id.Name != "_" {
				o := info.Defs[id]
				if o == nil {
					o = info.Uses[id]
				}
				if o != nil && o.Type().String() == "error" {
					errObj = o
				}
			}
			return true
		})
		if errObj == nil {
			continue
		}
		skips := allCalls(info, fi.Decl.Body, "encoding/protowire.ConsumeFieldValue")
		if len(skips) == 0 {
			continue
		}
		g := fi.CFG()
		for i, sk := range skips {
			good := g.DominatedByCond(sk, func(core ast.Expr, val bool) bool {
				be, ok := unparen(core).(*ast.BinaryExpr)
				if !ok {
					return false
				}
				x, y := be.X, be.Y
				if objOf(info, y) == errObj {
					x, y = y, x
				}
				if objOf(info, x) != errObj {
					return false
				}
				nm, isVar := unparen(y).(*ast.Ident)
				if !isVar || nm.Name != "errUnknown" {
					return false
				}
				return (be.Op == token.EQL && val) || (be.Op == token.NEQ && !val)
			})
			R.Check(good, rule, fi.Key+" skip#"+itoa(i+1), P.Pos(sk), "record skipped only when err == errUnknown", "a record is skipped without having established `err == errUnknown`: genuine decode errors of the field (invalid UTF-8, malformed nested data) are swallowed and the field is silently dropped or zeroed")
		}
		returned := false
		walk(fi.Decl.Body, func(n ast.Node) bool {
			if rs, ok := n.(*ast.ReturnStmt); ok && len(rs.Results) > 0 {
				if id, ok := unparen(rs.Results[len(rs.Results)-1]).(*ast.Ident); ok && info.Uses[id] == errObj {
					returned = true
				}
			}
			return true
		})
		R.Check(returned, rule, fi.Key+" error returned", P.Pos(fi.Decl), "the field decoder's error is returned", "the field decoder's error is never returned by this loop")
	}
}
