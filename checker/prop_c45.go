package main

import (
	"go/ast"
	"go/token"
	"go/types"
	"sort"
	"strings"
)

func init() {
	register(&Property{
		ID:         "C45",
		Level:      "other",
		Technique:  "writer/reader table agreement between structpb.NewValue (Go type → Value kind) and Value.AsInterface (Value kind → Go value) through the kind constructors; shape rules for the Any type URL writer and readers (static)",
		Explain:    "Decides structural necessary conditions of the Struct/Value/Any round trips: (1) structpb.NewValue maps every JSON-like Go type to the kind of the documented table (nil → null, bool → bool, all integer and float types and json.Number → number, string and []byte → string, map[string]any → struct, []any → list, anything else an error); each kind constructor New<K>Value wraps its argument in the oneof wrapper of the same kind K; Value.AsInterface has a case for every kind that NewValue can construct (null falls to nil) and returns the payload field of that same kind (AsMap/AsSlice for struct/list) — so the kind chosen on the way in is the kind read on the way out; strings are validated as UTF-8 and []byte is written as standard base64; (2) anypb: MarshalFrom writes `prefix + full name` with a prefix ending in '/', MessageName reads the text after the last '/', and MessageIs accepts exactly a URL that is the name or ends in '/' + name; UnmarshalTo refuses a destination for which MessageIs is false. Also: anypb.UnmarshalTo reports success only through opts.Unmarshal (which resets a reused destination), and protojson writes google.protobuf.NullValue as null before considering UseEnumNumbers.",
		NotCovered: "the values themselves (integers beyond 2^53, NaN/Infinity strings), recursion through nested structs/lists, encoding/json equivalence of AsInterface, UnmarshalNew's registry lookup.",
		Quick:      all("./types/known/structpb", "./types/known/anypb", "./encoding/protojson"),
		Thorough:   all("./..."),
		Run: func(c *Ctx) {
			c.ruleStructKindTable("R-STRUCT-KIND-TABLE")
			c.ruleAnyURL("R-ANY-URL")
			c.ruleSuccessThroughUnmarshal("R-SUCCESS-THROUGH-UNMARSHAL", []string{"types/known/anypb.UnmarshalTo"})
			c.ruleNullValueFirst("R-NULLVALUE-FIRST")
		},
	})
}

var structKindOfGoType = map[string]string{
	"nil": "Null", "bool": "Bool",
	"int": "Number", "int8": "Number", "int16": "Number", "int32": "Number", "int64": "Number",
	"uint": "Number", "uint8": "Number", "uint16": "Number", "uint32": "Number", "uint64": "Number",
	"float32": "Number", "float64": "Number", "json.Number": "Number",
	"string": "String", "[]byte": "String",
	"map[string]any": "Struct", "map[string]interface{}": "Struct", "[]any": "List", "[]interface{}": "List",
}

func (c *Ctx) ruleStructKindTable(rule string) {
	R, P := c.R, c.P
	R.Rule(rule, "structpb: NewValue's type switch follows the documented Go type → kind table; New<K>Value wraps in Value_<K>Value{<K>Value: v}; AsInterface returns the <K>Value payload of the same wrapper for every constructible kind", 20)
	const pk = "types/known/structpb."
	fw, fr := c.need(rule, pk+"NewValue"), c.need(rule, pk+"(*Value).AsInterface")
	if fw == nil || fr == nil {
		return
	}
	winfo := fw.Info()
	// constructors
	ctorKind := map[string]string{} // function key -> wrapper kind constructed
	for _, k := range []string{"Null", "Bool", "Number", "String", "Struct", "List"} {
		fc := c.need(rule, pk+"New"+k+"Value")
		if fc == nil {
			continue
		}
		good := false
		walk(fc.Decl.Body, func(n ast.Node) bool {
			cl, ok := n.(*ast.CompositeLit)
			if !ok || !strings.HasSuffix(exprStr(cl.Type), "Value_"+k+"Value") {
				return true
			}
			for _, el := range cl.Elts {
				if kv, ok := el.(*ast.KeyValueExpr); ok && exprStr(kv.Key) == k+"Value" {
					good = true
				}
			}
			return true
		})
		R.Check(good, rule, fc.Key, P.Pos(fc.Decl), "wraps in Value_"+k+"Value{"+k+"Value: …}", "the constructor does not wrap its argument in the oneof wrapper of its own kind")
		ctorKind[fc.Key] = k
	}
	// writer table
	constructed := map[string]bool{}
	walk(fw.Decl.Body, func(n ast.Node) bool {
		ts, ok := n.(*ast.TypeSwitchStmt)
		if !ok {
			return true
		}
		for _, s := range ts.Body.List {
			cc := s.(*ast.CaseClause)
			if cc.List == nil {
				// default: must be an error
				isErr := false
				for _, st := range cc.Body {
					if rs, ok := st.(*ast.ReturnStmt); ok && len(rs.Results) == 2 && isNilIdent(winfo, rs.Results[0]) && !isNilIdent(winfo, rs.Results[1]) {
						isErr = true
					}
				}
				R.Check(isErr, rule, fw.Key+" default", P.Pos(cc), "other Go types are an error", "a Go type outside the table is not rejected")
				continue
			}
			for _, l := range cc.List {
				tname := exprStr(l)
				want, known := structKindOfGoType[tname]
				construct := fw.Key + " case " + tname
				if !known {
					R.Unk(rule, construct, P.Pos(cc), "Go type not in the documented table")
					continue
				}
				got := ""
				for _, st := range cc.Body {
					walk(st, func(x ast.Node) bool {
						rs, ok := x.(*ast.ReturnStmt)
						if !ok || len(rs.Results) != 2 || !isNilIdent(winfo, rs.Results[1]) {
							return true
						}
						if call, ok := unparen(rs.Results[0]).(*ast.CallExpr); ok {
							if k, ok := ctorKind[calleeKey(winfo, call)]; ok {
								got = k
							}
						}
						return true
					})
				}
				if got != "" {
					constructed[got] = true
				}
				R.Check(got == want, rule, construct, P.Pos(cc), want+" value", "a Go "+tname+" is converted to a "+got+" value instead of a "+want+" value: AsInterface (and JSON) give back a different kind of value")
			}
		}
		return false
	})
	// string validation and base64
	utf := containsCall(winfo, fw.Decl.Body, "unicode/utf8.ValidString") != nil
	b64 := false
	walk(fw.Decl.Body, func(n ast.Node) bool {
		if call, ok := n.(*ast.CallExpr); ok && calleeKey(winfo, call) == "encoding/base64.(*Encoding).EncodeToString" {
			if se, ok := call.Fun.(*ast.SelectorExpr); ok && strings.HasSuffix(exprStr(se.X), "base64.StdEncoding") {
				b64 = true
			}
		}
		return true
	})
	R.Check(utf, rule, fw.Key+" string validity", P.Pos(fw.Decl), "strings validated as UTF-8", "strings are no longer validated as UTF-8")
	R.Check(b64, rule, fw.Key+" bytes encoding", P.Pos(fw.Decl), "[]byte written as standard base64", "[]byte is not written with base64.StdEncoding")
	// reader table
	rinfo := fr.Info()
	readKinds := map[string]bool{}
	walk(fr.Decl.Body, func(n ast.Node) bool {
		ts, ok := n.(*ast.TypeSwitchStmt)
		if !ok {
			return true
		}
		for _, s := range ts.Body.List {
			cc := s.(*ast.CaseClause)
			for _, l := range cc.List {
				t := exprStr(l)
				i := strings.Index(t, "Value_")
				if i < 0 || !strings.HasSuffix(t, "Value") {
					continue
				}
				k := strings.TrimSuffix(t[i+len("Value_"):], "Value")
				readKinds[k] = true
				// some return in the clause reads the payload field of kind k
				same := false
				for _, st := range cc.Body {
					walk(st, func(x ast.Node) bool {
						if rs, ok := x.(*ast.ReturnStmt); ok && len(rs.Results) == 1 {
							if strings.Contains(exprStr(rs.Results[0]), "."+k+"Value") {
								same = true
							}
						}
						return true
					})
				}
				R.Check(same, rule, fr.Key+" case "+k, P.Pos(cc), "returns the "+k+"Value payload", "the case for "+k+" values does not return the "+k+"Value payload: a different field (or nothing) is read back")
			}
		}
		_ = rinfo
		return false
	})
	var missing []string
	for k := range constructed {
		if k != "Null" && !readKinds[k] {
			missing = append(missing, k)
		}
	}
	sort.Strings(missing)
	R.Check(len(missing) == 0, rule, fr.Key+" coverage", P.Pos(fr.Decl), "every constructible kind is read back", "AsInterface has no case for the kinds {"+strings.Join(missing, ", ")+"} that NewValue constructs: such values come back as nil")
}

func (c *Ctx) ruleAnyURL(rule string) {
	R, P := c.R, c.P
	R.Rule(rule, "anypb: MarshalFrom writes a type URL `prefix + FullName` with a prefix ending in '/'; MessageName takes the text after the last '/'; MessageIs accepts exactly name or …'/'+name; UnmarshalTo is guarded by MessageIs", 4)
	const pk = "types/known/anypb."
	if fi := c.need(rule, pk+"MarshalFrom"); fi != nil {
		info := fi.Info()
		good := false
		walk(fi.Decl.Body, func(n ast.Node) bool {
			as, ok := n.(*ast.AssignStmt)
			if !ok || len(as.Lhs) != 1 || !strings.HasSuffix(exprStr(as.Lhs[0]), ".TypeUrl") {
				return true
			}
			be, ok := unparen(as.Rhs[0]).(*ast.BinaryExpr)
			if !ok || be.Op != token.ADD {
				return true
			}
			if tv, ok := info.Types[be.X]; ok && tv.Value != nil && strings.HasSuffix(constantString(tv.Value), "/") && strings.Contains(exprStr(be.Y), "FullName()") {
				good = true
			}
			return true
		})
		R.Check(good, rule, fi.Key+" url", P.Pos(fi.Decl), "TypeUrl = <prefix ending in '/'> + full name", "the type URL is not written as a prefix ending in '/' followed by the message's full name")
	}
	if fi := c.need(rule, pk+"(*Any).MessageName"); fi != nil {
		info := fi.Info()
		good := false
		walk(fi.Decl.Body, func(n ast.Node) bool {
			if call, ok := n.(*ast.CallExpr); ok && calleeKey(info, call) == "strings.LastIndexByte" && len(call.Args) == 2 {
				if v, ok := constInt(info, call.Args[1]); ok && v == '/' {
					good = true
				}
			}
			return true
		})
		R.Check(good, rule, fi.Key+" name", P.Pos(fi.Decl), "name = text after the last '/'", "MessageName does not take the text after the last '/' of the type URL")
	}
	if fi := c.need(rule, pk+"(*Any).MessageIs"); fi != nil {
		info := fi.Info()
		suffix := containsCall(info, fi.Decl.Body, "strings.HasSuffix") != nil
		boundary := false
		walk(fi.Decl.Body, func(n ast.Node) bool {
			if rs, ok := n.(*ast.ReturnStmt); ok && len(rs.Results) == 1 {
				if or, ok := unparen(rs.Results[0]).(*ast.BinaryExpr); ok && or.Op == token.LOR {
					s := exprStr(or)
					if strings.Contains(s, "len(url) == len(name)") || strings.Contains(s, "len(name) == len(url)") {
						for _, side := range []ast.Expr{or.X, or.Y} {
							if be, ok := unparen(side).(*ast.BinaryExpr); ok && be.Op == token.EQL {
								if v, ok := constInt(info, be.Y); ok && v == '/' {
									boundary = true
								}
							}
						}
					}
				}
			}
			return true
		})
		R.Check(suffix && boundary, rule, fi.Key+" match", P.Pos(fi.Decl), "URL is the name or ends in '/'+name", "MessageIs does not require the URL to be the name itself or to end in '/' followed by the name: `x.Foo` would match a message `Foo`, or a bare name would not match")
	}
	if fi := c.need(rule, pk+"UnmarshalTo"); fi != nil {
		info := fi.Info()
		g := fi.CFG()
		n := 0
		walk(fi.Decl.Body, func(x ast.Node) bool {
			call, ok := x.(*ast.CallExpr)
			if !ok || calleeKey(info, call) != "proto.UnmarshalOptions.Unmarshal" {
				return true
			}
			n++
			dom := g.DominatedByCond(call, func(core ast.Expr, val bool) bool {
				cc, ok := unparen(core).(*ast.CallExpr)
				return ok && val && calleeKey(info, cc) == pk+"(*Any).MessageIs"
			})
			R.Check(dom, rule, fi.Key+" type check", P.Pos(call), "decoded only when MessageIs(dst)", "the value is decoded into the destination without establishing that the Any holds a message of the destination's type")
			return true
		})
		if n == 0 {
			R.Unk(rule, fi.Key, P.Pos(fi.Decl), "Unmarshal call not found")
		}
	}
	var _ types.Type
}
