package main

import (
	"encoding/json"
	"fmt"
	"math/rand"
	"os"
	"path/filepath"
	"sort"
	"strings"
	"time"
)

type Status string

const (
	Discharged Status = "discharged"
	Violated   Status = "violated"
	Undecided  Status = "undecided"
	Known      Status = "known-finding"
)

// Obligation is one rule instance decided on one construct.
type Obligation struct {
	Rule      string `json:"rule"`
	Construct string `json:"construct"` // stable identity: function/closure/literal/field, never a line
	Config    string `json:"config"`
	Status    Status `json:"status"`
	Pos       string `json:"pos,omitempty"` // file:line, informational only
	Detail    string `json:"detail,omitempty"`
	Trivial   bool   `json:"-"` // discharged by an exception-table row
}

type RuleInfo struct {
	Name      string `json:"name"`
	Text      string `json:"text"`
	Floor     int    `json:"floor"`
	Instances int    `json:"instances"`
	Canary    string `json:"canary,omitempty"`
}

type Report struct {
	Property    string
	Tier        string
	Seed        int64
	Level       string
	Explanation string
	NotCovered  string
	Trusted     []string
	Assumptions []string
	Obls        []Obligation
	Rules       map[string]*RuleInfo
	ruleOrder   []string
	Configs     []string
	Packages    int
	Functions   int
	start       time.Time
	curConfig   string
}

func NewReport(prop, tier string, seed int64) *Report {
	return &Report{Property: prop, Tier: tier, Seed: seed, Level: "other", Rules: map[string]*RuleInfo{}, start: time.Now()}
}

// Rule declares a rule with its text and floor (minimum instance count).
func (r *Report) Rule(name, text string, floor int) {
	if ri, ok := r.Rules[name]; ok {
		if floor > ri.Floor {
			ri.Floor = floor
		}
		return
	}
	r.Rules[name] = &RuleInfo{Name: name, Text: text, Floor: floor}
	r.ruleOrder = append(r.ruleOrder, name)
}

func (r *Report) add(rule, construct string, st Status, pos, detail string, trivial bool) {
	if _, ok := r.Rules[rule]; !ok {
		r.Rule(rule, "", 0)
	}
	r.Rules[rule].Instances++
	r.Obls = append(r.Obls, Obligation{Rule: rule, Construct: construct, Config: r.curConfig, Status: st, Pos: pos, Detail: detail, Trivial: trivial})
}

func (r *Report) OK(rule, construct, pos, detail string) {
	r.add(rule, construct, Discharged, pos, detail, false)
}
func (r *Report) Exempt(rule, construct, pos, reason string) {
	r.add(rule, construct, Discharged, pos, "exception: "+reason, true)
}
func (r *Report) Bad(rule, construct, pos, detail string) {
	r.add(rule, construct, Violated, pos, detail, false)
}
func (r *Report) Unk(rule, construct, pos, detail string) {
	r.add(rule, construct, Undecided, pos, detail, false)
}

// Check records discharged if ok, else violated.
func (r *Report) Check(ok bool, rule, construct, pos, good, bad string) {
	if ok {
		r.OK(rule, construct, pos, good)
	} else {
		r.Bad(rule, construct, pos, bad)
	}
}

func (r *Report) CanaryResult(rule string, fired bool, what string) {
	if ri, ok := r.Rules[rule]; ok {
		if fired {
			ri.Canary = "fired: " + what
		} else {
			ri.Canary = "SILENT: " + what
			r.Obls = append(r.Obls, Obligation{Rule: rule, Construct: "canary:" + what, Config: "canary", Status: Undecided, Detail: "canary fixture was not reported; the rule is not trusted"})
		}
	}
}

// ---------------------------------------------------------------- findings

type Finding struct {
	Property  string `json:"property"`
	Rule      string `json:"rule"`
	Construct string `json:"construct"`
	What      string `json:"what"`
}

type FindingsFile struct {
	Open  []Finding `json:"open"`
	Fixed []string  `json:"fixed"`
}

func loadFindings(verifDir string) FindingsFile {
	var ff FindingsFile
	b, err := os.ReadFile(filepath.Join(verifDir, "known_findings.json"))
	if err == nil {
		_ = json.Unmarshal(b, &ff)
	}
	return ff
}

// ---------------------------------------------------------------- finish

// Finish applies floors and known findings, writes evidence and replay files,
// prints the verdict lines and returns the process exit code.
func (r *Report) Finish(verifDir string, onlyConstructs map[string]bool) int {
	// Floors.
	for _, name := range r.ruleOrder {
		ri := r.Rules[name]
		if ri.Instances < ri.Floor {
			r.Obls = append(r.Obls, Obligation{Rule: name, Construct: "floor", Config: "-", Status: Undecided,
				Detail: fmt.Sprintf("rule matched %d instances, below the hand-confirmed floor %d: the rule may have gone vacuous", ri.Instances, ri.Floor)})
		}
	}
	ff := loadFindings(verifDir)
	known := map[string]Finding{}
	for _, f := range ff.Open {
		if f.Property == r.Property {
			known[f.Rule+"|"+f.Construct] = f
		}
	}
	printedKnown := map[string]bool{}
	var bad []Obligation
	discharged, nontrivial := 0, map[string]bool{}
	for i := range r.Obls {
		o := &r.Obls[i]
		if onlyConstructs != nil && !onlyConstructs[o.Rule+"|"+o.Construct] {
			continue
		}
		switch o.Status {
		case Violated, Undecided:
			if f, ok := known[o.Rule+"|"+o.Construct]; ok && o.Status == Violated {
				o.Status = Known
				k := o.Rule + "|" + o.Construct
				if !printedKnown[k] {
					fmt.Printf("KNOWN-FINDING: property=%s %s [%s @ %s]\n", r.Property, f.What, o.Rule, o.Construct)
					printedKnown[k] = true
				}
				continue
			}
			bad = append(bad, *o)
		case Discharged:
			discharged++
			if !o.Trivial {
				nontrivial[o.Rule+"|"+o.Construct] = true
			}
		}
	}
	if os.Getenv("VERIF_DUMP") != "" {
		for _, o := range r.Obls {
			fmt.Fprintf(os.Stderr, "OBL %s | %s | %s | %s | %s\n", o.Status, o.Rule, o.Construct, o.Pos, o.Detail)
		}
	}
	sort.SliceStable(bad, func(i, j int) bool {
		if bad[i].Rule != bad[j].Rule {
			return bad[i].Rule < bad[j].Rule
		}
		return bad[i].Construct < bad[j].Construct
	})

	// samples: deterministic by seed
	var samples []Obligation
	if n := len(r.Obls); n > 0 {
		rng := rand.New(rand.NewSource(r.Seed))
		seenRule := map[string]int{}
		perm := rng.Perm(n)
		for _, i := range perm {
			o := r.Obls[i]
			if seenRule[o.Rule] >= 2 || len(samples) >= 24 {
				continue
			}
			seenRule[o.Rule]++
			samples = append(samples, o)
		}
	}
	var rules []RuleInfo
	var ruleTexts []string
	for _, name := range r.ruleOrder {
		rules = append(rules, *r.Rules[name])
		ruleTexts = append(ruleTexts, name+": "+r.Rules[name].Text)
	}
	total := 0
	for _, o := range r.Obls {
		if onlyConstructs == nil || onlyConstructs[o.Rule+"|"+o.Construct] {
			total++
		}
	}
	knownCount := 0
	for _, o := range r.Obls {
		if o.Status == Known {
			knownCount++
		}
	}
	expl := r.Explanation
	if r.NotCovered != "" {
		expl += " NOT COVERED: " + r.NotCovered
	}
	ev := map[string]any{
		"property_id": r.Property,
		"tier":        r.Tier,
		"seed":        r.Seed,
		"level":       r.Level,
		"coverage": map[string]any{
			"obligations":         total,
			"discharged":          discharged,
			"known_findings":      knownCount,
			"evaluations":         total,
			"distinct_nontrivial": len(nontrivial),
			"rule":                "static rules over /repo's type-checked source; each obligation is one rule applied to one construct (function, closure, literal, table row); non-trivial = decided by analysing the construct's body rather than by an exception-table row. " + strings.Join(ruleTexts, " | "),
			"rules":               rules,
			"samples":             samples,
			"explanation":         expl,
			"exhaustive":          true,
			"checker_cmd":         fmt.Sprintf("/verif/run.sh %s %s", r.Property, r.Tier),
			"trusted_base":        append([]string{"go/parser, go/types (Go 1.23.5), golang.org/x/tools v0.29.0 (go/packages, go/cfg, go/ssa, callgraph/vta)", "the rule implementations under /verif/checker"}, r.Trusted...),
			"configs":             r.Configs,
			"packages_analysed":   r.Packages,
			"functions_analysed":  r.Functions,
		},
		"assumptions": r.Assumptions,
		"wall_s":      time.Since(r.start).Seconds(),
		"violations":  len(bad),
	}
	if ev["assumptions"] == nil || len(r.Assumptions) == 0 {
		ev["assumptions"] = []string{}
	}
	evDir := filepath.Join(verifDir, "evidence")
	if d := os.Getenv("VERIF_EVIDENCE_DIR"); d != "" {
		evDir = d // development runs against scratch copies must not clobber the committed evidence
	}
	_ = os.MkdirAll(filepath.Join(evDir, "replay"), 0o755)
	if onlyConstructs == nil {
		writeJSON(filepath.Join(evDir, r.Property+".json"), ev)
	}
	replay := filepath.Join(evDir, "replay", r.Property+".json")
	if len(bad) > 0 {
		if onlyConstructs == nil {
			writeJSON(replay, map[string]any{"property_id": r.Property, "tier": r.Tier, "violations": bad})
		}
		for _, o := range bad {
			fmt.Printf("  %s %s [%s] %s (%s): %s\n", strings.ToUpper(string(o.Status)), o.Rule, o.Config, o.Construct, o.Pos, o.Detail)
		}
		fmt.Printf("VIOLATION property=%s replay=%s\n", r.Property, replay)
		return 1
	}
	if onlyConstructs == nil {
		_ = os.Remove(replay)
	}
	fmt.Printf("OK property=%s tier=%s obligations=%d discharged=%d known=%d rules=%d wall=%.1fs\n",
		r.Property, r.Tier, total, discharged, knownCount, len(r.ruleOrder), time.Since(r.start).Seconds())
	return 0
}

func writeJSON(path string, v any) {
	b, err := json.MarshalIndent(v, "", " ")
	if err != nil {
		fmt.Fprintln(os.Stderr, "evidence marshal:", err)
		os.Exit(2)
	}
	tmp := path + ".tmp"
	if err := os.WriteFile(tmp, append(b, '\n'), 0o644); err != nil {
		fmt.Fprintln(os.Stderr, "evidence write:", err)
		os.Exit(2)
	}
	_ = os.Rename(tmp, path)
}
