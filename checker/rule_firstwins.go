package main

import (
	"go/ast"
	"go/types"
	"strings"
)

// R-FIRST-WINS: keyed descriptor views return the FIRST element with a key.
// Every insertion `p.byX[K] = V` made while ranging over the element list in
// a lazyInit closure must be guarded by "K absent" (`_, ok := p.byX[K]; !ok`),
// unless the insertion key is the range key of a map (unique by construction).
func (c *Ctx) ruleFirstWins(rule string, pkg string, floor int) {
	R, P := c.R, c.P
	R.Rule(rule, "in every once.Do lazyInit closure of the descriptor list types, each keyed-view insertion p.byX[K] = V inside a loop over the element list is dominated by the `_, ok := p.byX[K]; !ok` absence test on the same map and key (first element wins); insertions keyed by a map-range key are unique by construction", floor)
	for _, fi := range P.FuncsIn(pkg) {
		if fi.Decl.Body == nil {
			continue
		}
		info := fi.Info()
		for _, call := range allCalls(info, fi.Decl.Body, "sync.(*Once).Do") {
			if len(call.Args) != 1 {
				continue
			}
			lit, ok := unparen(call.Args[0]).(*ast.FuncLit)
			if !ok {
				continue
			}
			g := newCFG(lit.Body, info)
			// collect range statements to know loop variable provenance
			mapRangeKeys := map[types.Object]bool{}
			walk(lit.Body, func(n ast.Node) bool {
				if rs, ok := n.(*ast.RangeStmt); ok {
					if tv, ok := info.Types[rs.X]; ok {
						if _, isMap := tv.Type.Underlying().(*types.Map); isMap {
							if id, ok := rs.Key.(*ast.Ident); ok {
								mapRangeKeys[info.Defs[id]] = true
							}
						}
					}
				}
				return true
			})
			n := 0
			walk(lit.Body, func(node ast.Node) bool {
				as, ok := node.(*ast.AssignStmt)
				if !ok || len(as.Lhs) != 1 {
					return true
				}
				ix, ok := unparen(as.Lhs[0]).(*ast.IndexExpr)
				if !ok {
					return true
				}
				_, field, isField := fieldSel(info, ix.X)
				if !isField || !strings.HasPrefix(field, "by") {
					return true
				}
				if tv, ok := info.Types[ix.X]; !ok || !isMapType(tv.Type) {
					return true
				}
				n++
				name := fi.Key + " " + field + "[" + exprStr(ix.Index) + "]"
				// inside a loop?
				if !insideLoop(lit.Body, as) {
					R.OK(rule, name, P.Pos(as), "single insertion outside any loop")
					return true
				}
				if id, ok := unparen(ix.Index).(*ast.Ident); ok && mapRangeKeys[objOf(info, id)] {
					R.Exempt(rule, name, P.Pos(as), "insertion key is the range key of a map: each key is inserted once")
					return true
				}
				mapStr, keyStr := exprStr(ix.X), exprStr(ix.Index)
				guarded := g.DominatedByCond(as, func(core ast.Expr, val bool) bool {
					if val {
						return false
					}
					id, ok := core.(*ast.Ident)
					if !ok {
						return false
					}
					// ok must be defined by `_, ok := <map>[<key>]`
					obj := objOf(info, id)
					found := false
					walk(lit.Body, func(x ast.Node) bool {
						a2, ok := x.(*ast.AssignStmt)
						if !ok || len(a2.Lhs) != 2 || len(a2.Rhs) != 1 {
							return true
						}
						okID, isID := a2.Lhs[1].(*ast.Ident)
						if !isID || objOf(info, okID) != obj {
							return true
						}
						if ie, ok := unparen(a2.Rhs[0]).(*ast.IndexExpr); ok && exprStr(ie.X) == mapStr && exprStr(ie.Index) == keyStr {
							found = true
						}
						return true
					})
					return found
				})
				R.Check(guarded, rule, name, P.Pos(as),
					"guarded by `_, ok := "+mapStr+"["+keyStr+"]; !ok`",
					"unguarded insertion while ranging over the element list: with two elements sharing a key the LAST one wins, while the sibling views (and ByX on the parent list) return the first")
				return true
			})
		}
	}
}

func isMapType(t types.Type) bool {
	_, ok := t.Underlying().(*types.Map)
	return ok
}

func insideLoop(root ast.Node, target ast.Node) bool {
	in := false
	var rec func(n ast.Node, loop bool)
	rec = func(n ast.Node, loop bool) {
		if n == nil || in {
			return
		}
		ast.Inspect(n, func(x ast.Node) bool {
			if x == nil || in {
				return false
			}
			if x == target {
				if loop {
					in = true
				}
				return false
			}
			if x != n {
				switch x.(type) {
				case *ast.ForStmt, *ast.RangeStmt:
					rec(x, true)
					return false
				}
			} else {
				switch x.(type) {
				case *ast.ForStmt, *ast.RangeStmt:
					loop = true
				}
			}
			return true
		})
	}
	rec(root, false)
	return in
}

// R-LOOKUP-VIA-INDEX: keyed lookups (ByName, ByNumber, ByJSONName, ByTextName,
// ByPath, ByDescriptor, Has) of the list types answer only from the lazily
// built index (`p.lazyInit().byX`, `.has`, `.sorted`). A lookup that also
// reads the backing list directly can disagree with the index (which is built
// first-wins / sorted), so that By*/Has contradict Get(i).
func (c *Ctx) ruleLookupViaIndex(rule string, pkg string, floor int) {
	R, P := c.R, c.P
	R.Rule(rule, "every By*/Has lookup method of a descriptor list type that has a lazyInit index reads elements of the list only through p.lazyInit() (no direct element access to the receiver's List field; len() is allowed): one source of truth for keyed lookups", floor)
	hasLazy := map[string]bool{}
	for _, fi := range P.FuncsIn(pkg) {
		if fi.Obj.Name() == "lazyInit" {
			if sig, ok := fi.Obj.Type().(*types.Signature); ok && sig.Recv() != nil {
				hasLazy[namedTypeName(sig.Recv().Type())] = true
			}
		}
	}
	for _, fi := range P.FuncsIn(pkg) {
		name := fi.Obj.Name()
		if !(strings.HasPrefix(name, "By") || name == "Has") || fi.Decl.Body == nil || fi.Decl.Recv == nil {
			continue
		}
		sig := fi.Obj.Type().(*types.Signature)
		if sig.Recv() == nil || !hasLazy[namedTypeName(sig.Recv().Type())] {
			continue
		}
		recv := sig.Recv()
		info := fi.Info()
		var direct ast.Node
		walk(fi.Decl.Body, func(n ast.Node) bool {
			// len(p.List) reads no element and cannot contradict the index
			if call, ok := n.(*ast.CallExpr); ok {
				if id, ok := call.Fun.(*ast.Ident); ok && id.Name == "len" && info.Uses[id] == types.Universe.Lookup("len") {
					return false
				}
			}
			se, ok := n.(*ast.SelectorExpr)
			if !ok || direct != nil {
				return true
			}
			if id, ok := unparen(se.X).(*ast.Ident); ok && info.Uses[id] == recv {
				if v, ok := info.Uses[se.Sel].(*types.Var); ok && v.IsField() {
					if _, isSlice := v.Type().Underlying().(*types.Slice); isSlice {
						direct = se
					}
				}
			}
			return true
		})
		if direct != nil {
			R.Bad(rule, fi.Key, P.Pos(direct), "the lookup reads the backing list `"+exprStr(direct.(ast.Expr))+"` directly instead of answering from the lazyInit index: it can return a different element (or a different membership answer) than the first-wins/sorted index")
		} else {
			R.OK(rule, fi.Key, P.Pos(fi.Decl), "answers only from p.lazyInit()")
		}
	}
}
