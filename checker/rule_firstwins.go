package main

import (
	"go/ast"
	"go/types"
	"sort"
	"strings"
)

// R-FIRST-WINS: keyed descriptor views return the FIRST element with a key.
// Every insertion `p.byX[K] = V` made while ranging over the element list in
// a lazyInit closure must be guarded by "K absent" (`_, ok := p.byX[K]; !ok`),
// unless the insertion key is the range key of a map (unique by construction).
func (c *Ctx) ruleFirstWins(rule string, pkg string, floor int) {
	R, P := c.R, c.P
	R.Rule(rule, "in every once.Do lazyInit closure of the descriptor list types, each keyed-view insertion p.byX[K] = V inside a loop over the element list is dominated by the `_, ok := p.byX[K]; !ok` absence test on the same map and key (first element wins); insertions keyed by a map-range key are unique by construction", floor)
	for _, fi := range P.FuncsIn(pkg) {
		if fi.Decl.Body == nil {
			continue
		}
		info := fi.Info()
		for _, call := range allCalls(info, fi.Decl.Body, "sync.(*Once).Do") {
			if len(call.Args) != 1 {
				continue
			}
			lit, ok := unparen(call.Args[0]).(*ast.FuncLit)
			if !ok {
				continue
			}
			g := newCFG(lit.Body, info)
			// collect range statements to know loop variable provenance
			mapRangeKeys := map[types.Object]bool{}
			walk(lit.Body, func(n ast.Node) bool {
				if rs, ok := n.(*ast.RangeStmt); ok {
					if tv, ok := info.Types[rs.X]; ok {
						if _, isMap := tv.Type.Underlying().(*types.Map); isMap {
							if id, ok := rs.Key.(*ast.Ident); ok {
								mapRangeKeys[info.Defs[id]] = true
							}
						}
					}
				}
				return true
			})
			n := 0
			walk(lit.Body, func(node ast.Node) bool {
				as, ok := node.(*ast.AssignStmt)
				if !ok || len(as.Lhs) != 1 {
					return true
				}
				ix, ok := unparen(as.Lhs[0]).(*ast.IndexExpr)
				if !ok {
					return true
				}
				_, field, isField := fieldSel(info, ix.X)
				if !isField || !strings.HasPrefix(field, "by") {
					return true
				}
				if tv, ok := info.Types[ix.X]; !ok || !isMapType(tv.Type) {
					return true
				}
				n++
				name := fi.Key + " " + field + "[" + exprStr(ix.Index) + "]"
				// inside a loop?
				if !insideLoop(lit.Body, as) {
					R.OK(rule, name, P.Pos(as), "single insertion outside any loop")
					return true
				}
				if id, ok := unparen(ix.Index).(*ast.Ident); ok && mapRangeKeys[objOf(info, id)] {
					R.Exempt(rule, name, P.Pos(as), "insertion key is the range key of a map: each key is inserted once")
					return true
				}
				mapStr, keyStr := exprStr(ix.X), exprStr(ix.Index)
				guarded := g.DominatedByCond(as, func(core ast.Expr, val bool) bool {
					if val {
						return false
					}
					id, ok := core.(*ast.Ident)
					if !ok {
						return false
					}
					// ok must be defined by `_, ok := <map>[<key>]`
					obj := objOf(info, id)
					found := false
					walk(lit.Body, func(x ast.Node) bool {
						a2, ok := x.(*ast.AssignStmt)
						if !ok || len(a2.Lhs) != 2 || len(a2.Rhs) != 1 {
							return true
						}
						okID, isID := a2.Lhs[1].(*ast.Ident)
						if !isID || objOf(info, okID) != obj {
							return true
						}
						if ie, ok := unparen(a2.Rhs[0]).(*ast.IndexExpr); ok && exprStr(ie.X) == mapStr && exprStr(ie.Index) == keyStr {
							found = true
						}
						return true
					})
					return found
				})
				R.Check(guarded, rule, name, P.Pos(as),
					"guarded by `_, ok := "+mapStr+"["+keyStr+"]; !ok`",
					"unguarded insertion while ranging over the element list: with two elements sharing a key the LAST one wins, while the sibling views (and ByX on the parent list) return the first")
				return true
			})
		}
	}
}

func isMapType(t types.Type) bool {
	_, ok := t.Underlying().(*types.Map)
	return ok
}

func insideLoop(root ast.Node, target ast.Node) bool {
	in := false
	var rec func(n ast.Node, loop bool)
	rec = func(n ast.Node, loop bool) {
		if n == nil || in {
			return
		}
		ast.Inspect(n, func(x ast.Node) bool {
			if x == nil || in {
				return false
			}
			if x == target {
				if loop {
					in = true
				}
				return false
			}
			if x != n {
				switch x.(type) {
				case *ast.ForStmt, *ast.RangeStmt:
					rec(x, true)
					return false
				}
			} else {
				switch x.(type) {
				case *ast.ForStmt, *ast.RangeStmt:
					loop = true
				}
			}
			return true
		})
	}
	rec(root, false)
	return in
}

// R-LOOKUP-VIA-INDEX: keyed lookups (ByName, ByNumber, ByJSONName, ByTextName,
// ByPath, ByDescriptor, Has) of the list types answer only from the lazily
// built index (`p.lazyInit().byX`, `.has`, `.sorted`). A lookup that also
// reads the backing list directly can disagree with the index (which is built
// first-wins / sorted), so that By*/Has contradict Get(i).
func (c *Ctx) ruleLookupViaIndex(rule string, pkg string, floor int) {
	R, P := c.R, c.P
	R.Rule(rule, "every By*/Has lookup method of a descriptor list type that has a lazyInit index reads elements of the list only through p.lazyInit() (no direct element access to the receiver's List field; len() is allowed): one source of truth for keyed lookups", floor)
	hasLazy := map[string]bool{}
	for _, fi := range P.FuncsIn(pkg) {
		if fi.Obj.Name() == "lazyInit" {
			if sig, ok := fi.Obj.Type().(*types.Signature); ok && sig.Recv() != nil {
				hasLazy[namedTypeName(sig.Recv().Type())] = true
			}
		}
	}
	for _, fi := range P.FuncsIn(pkg) {
		name := fi.Obj.Name()
		if !(strings.HasPrefix(name, "By") || name == "Has") || fi.Decl.Body == nil || fi.Decl.Recv == nil {
			continue
		}
		sig := fi.Obj.Type().(*types.Signature)
		if sig.Recv() == nil || !hasLazy[namedTypeName(sig.Recv().Type())] {
			continue
		}
		recv := sig.Recv()
		info := fi.Info()
		var direct ast.Node
		walk(fi.Decl.Body, func(n ast.Node) bool {
			// len(p.List) reads no element and cannot contradict the index
			if call, ok := n.(*ast.CallExpr); ok {
				if id, ok := call.Fun.(*ast.Ident); ok && id.Name == "len" && info.Uses[id] == types.Universe.Lookup("len") {
					return false
				}
			}
			se, ok := n.(*ast.SelectorExpr)
			if !ok || direct != nil {
				return true
			}
			if id, ok := unparen(se.X).(*ast.Ident); ok && info.Uses[id] == recv {
				if v, ok := info.Uses[se.Sel].(*types.Var); ok && v.IsField() {
					if _, isSlice := v.Type().Underlying().(*types.Slice); isSlice {
						direct = se
					}
				}
			}
			return true
		})
		if direct != nil {
			R.Bad(rule, fi.Key, P.Pos(direct), "the lookup reads the backing list `"+exprStr(direct.(ast.Expr))+"` directly instead of answering from the lazyInit index: it can return a different element (or a different membership answer) than the first-wins/sorted index")
		} else {
			R.OK(rule, fi.Key, P.Pos(fi.Decl), "answers only from p.lazyInit()")
		}
	}
}

// R-HAS-MEMBERSHIP: Has(x) of a descriptor list type answers membership in
// List. List is in declaration order, so Has may scan it linearly, answer from
// a map filled from a loop over the whole list, or search a copy of the whole
// list that is sorted under the same once. Indexing or slicing List itself (a
// binary search over the declaration order) or searching a slice that is never
// sorted answers wrongly for lists that are not declared in ascending order.
func (c *Ctx) ruleHasMembership(rule string, pkg string, floor int) {
	R, P := c.R, c.P
	R.Rule(rule, "every Has method of a list type with a List field answers from (a) a linear range over List, (b) a map that a loop over the whole List fills, or (c) a slice that is a copy of the whole List and is sorted (sort.Slice/sort.Sort/slices.Sort*) under the type's once; List itself is never indexed or sliced in Has", floor)
	byType := map[string][]*FuncInfo{}
	for _, fi := range P.FuncsIn(pkg) {
		if fi.Decl.Body == nil || fi.Decl.Recv == nil {
			continue
		}
		if sig, ok := fi.Obj.Type().(*types.Signature); ok && sig.Recv() != nil {
			byType[namedTypeName(sig.Recv().Type())] = append(byType[namedTypeName(sig.Recv().Type())], fi)
		}
	}
	for _, tn := range sortedKeysFI(byType) {
		var has *FuncInfo
		for _, fi := range byType[tn] {
			if fi.Obj.Name() == "Has" {
				has = fi
			}
		}
		if has == nil {
			continue
		}
		recvT := has.Obj.Type().(*types.Signature).Recv().Type()
		if p, ok := recvT.(*types.Pointer); ok {
			recvT = p.Elem()
		}
		st, ok := recvT.Underlying().(*types.Struct)
		if !ok {
			continue
		}
		hasList := false
		for i := 0; i < st.NumFields(); i++ {
			if st.Field(i).Name() == "List" {
				hasList = true
			}
		}
		if !hasList {
			continue
		}
		fieldOf := func(info *types.Info, e ast.Expr) string {
			se, ok := unparen(e).(*ast.SelectorExpr)
			if !ok {
				return ""
			}
			v, ok := info.Uses[se.Sel].(*types.Var)
			if !ok || !v.IsField() {
				return ""
			}
			xt := info.TypeOf(se.X)
			if xt == nil || namedTypeName(xt) != tn {
				return ""
			}
			return v.Name()
		}
		// what the type's methods establish
		filled, sortedCopy, copied := map[string]bool{}, map[string]bool{}, map[string]bool{}
		for _, fi := range byType[tn] {
			info := fi.Info()
			walkAll(fi.Decl.Body, func(n ast.Node) bool {
				switch x := n.(type) {
				case *ast.RangeStmt:
					if fieldOf(info, x.X) == "List" {
						walkAll(x.Body, func(m ast.Node) bool {
							if as, ok := m.(*ast.AssignStmt); ok {
								for _, l := range as.Lhs {
									if ie, ok := unparen(l).(*ast.IndexExpr); ok {
										if f := fieldOf(info, ie.X); f != "" {
											filled[f] = true
										}
									}
								}
							}
							return true
						})
					}
				case *ast.AssignStmt:
					if len(x.Lhs) == 1 && len(x.Rhs) == 1 {
						if f := fieldOf(info, x.Lhs[0]); f != "" {
							if call, ok := unparen(x.Rhs[0]).(*ast.CallExpr); ok && len(call.Args) == 2 && call.Ellipsis.IsValid() {
								if id, ok := call.Fun.(*ast.Ident); ok && id.Name == "append" && fieldOf(info, call.Args[0]) == f && fieldOf(info, call.Args[1]) == "List" {
									copied[f] = true
								}
							}
						}
					}
				case *ast.CallExpr:
					k := calleeKey(info, x)
					if (strings.HasPrefix(k, "sort.") || strings.HasPrefix(k, "slices.Sort")) && len(x.Args) >= 1 {
						if f := fieldOf(info, x.Args[0]); f != "" && f != "List" {
							sortedCopy[f] = true
						}
					}
				}
				return true
			})
		}
		info := has.Info()
		var bad []string
		basis := 0
		var badPos ast.Node
		walkAll(has.Decl.Body, func(n ast.Node) bool {
			switch x := n.(type) {
			case *ast.IndexExpr:
				f := fieldOf(info, x.X)
				if f == "List" {
					bad = append(bad, "indexes List (declaration order) directly")
					badPos = x
				}
			case *ast.SliceExpr:
				if fieldOf(info, x.X) == "List" {
					bad = append(bad, "slices List (declaration order) directly")
					badPos = x
				}
			case *ast.RangeStmt:
				if fieldOf(info, x.X) == "List" {
					basis++
				}
			case *ast.SelectorExpr:
				f := fieldOf(info, x)
				if f == "" || f == "List" {
					return true
				}
				v := info.Uses[x.Sel].(*types.Var)
				switch v.Type().Underlying().(type) {
				case *types.Map:
					basis++
					if !filled[f] {
						bad = append(bad, "answers from map `"+f+"`, which no loop over the whole List fills")
						badPos = x
					}
				case *types.Slice:
					basis++
					if !(copied[f] && sortedCopy[f]) {
						bad = append(bad, "searches slice `"+f+"`, which is not established as a sorted copy of List")
						badPos = x
					}
				}
			}
			return true
		})
		switch {
		case len(bad) > 0:
			R.Bad(rule, has.Key, P.Pos(badPos), "Has "+strings.Join(uniqStrings(bad), "; ")+": for a list not declared in ascending order the membership answer is wrong although Get(i) lists the element")
		case basis == 0:
			R.Unk(rule, has.Key, P.Pos(has.Decl), "membership basis not recognised (no range over List, filled map or sorted copy)")
		default:
			R.OK(rule, has.Key, P.Pos(has.Decl), "answers from a linear scan, a map filled from the whole List, or a sorted copy of List")
		}
	}
}

func sortedKeysFI(m map[string][]*FuncInfo) []string {
	var ks []string
	for k := range m {
		ks = append(ks, k)
	}
	sort.Strings(ks)
	return ks
}

func uniqStrings(in []string) []string {
	seen := map[string]bool{}
	var out []string
	for _, s := range in {
		if !seen[s] {
			seen[s] = true
			out = append(out, s)
		}
	}
	return out
}

// R-MAP-ENTRY-LINKS: MapKey/MapValue of a map field are the fields numbered 1
// and 2 of the entry message, whatever their declaration order; the entry's
// own ByNumber view has to agree with the links.
func (c *Ctx) ruleMapEntryLinks(rule string) {
	R, P := c.R, c.P
	R.Rule(rule, "filedesc.(*Field).MapKey / MapValue return nil exactly when !IsMap(), and otherwise fd.Message().Fields().ByNumber(k) with constant k = 1 (key) / 2 (value): the links are by field number, not by position", 2)
	for name, want := range map[string]int64{"MapKey": 1, "MapValue": 2} {
		fi := c.need(rule, "internal/filedesc.(*Field)."+name)
		if fi == nil {
			continue
		}
		info := fi.Info()
		var problems []string
		nret := 0
		walkAll(fi.Decl.Body, func(n ast.Node) bool {
			rs, ok := n.(*ast.ReturnStmt)
			if !ok || len(rs.Results) != 1 {
				return true
			}
			nret++
			e := unparen(rs.Results[0])
			if id, ok := e.(*ast.Ident); ok && id.Name == "nil" {
				// must be guarded by !fd.IsMap()
				g := enclosingGuards(fi.Decl.Body, rs)
				if !(strings.HasPrefix(g, "!") && strings.HasSuffix(g, ".IsMap()") && !strings.Contains(g, ";")) {
					problems = append(problems, "returns nil outside the `!fd.IsMap()` guard")
				}
				return true
			}
			call, ok := e.(*ast.CallExpr)
			if !ok {
				problems = append(problems, "returns `"+exprStr(e)+"`, not a ByNumber lookup")
				return true
			}
			se, ok := call.Fun.(*ast.SelectorExpr)
			if !ok || se.Sel.Name != "ByNumber" || len(call.Args) != 1 {
				problems = append(problems, "returns `"+exprStr(e)+"`, which selects the entry field by something other than its number")
				return true
			}
			if !strings.HasSuffix(exprStr(se.X), ".Message().Fields()") {
				problems = append(problems, "looks the number up in `"+exprStr(se.X)+"`, not in the entry message's fields")
			}
			tv := info.Types[call.Args[0]]
			if v, ok := constantInt64(tv.Value); !ok || v != want {
				problems = append(problems, "looks up field number `"+exprStr(call.Args[0])+"` instead of "+itoa(int(want)))
			}
			return true
		})
		if nret < 2 {
			problems = append(problems, "expected a nil return for non-map fields and a ByNumber return")
		}
		R.Check(len(problems) == 0, rule, fi.Key, P.Pos(fi.Decl), "nil iff !IsMap(); otherwise entry field number "+itoa(int(want)), strings.Join(problems, "; ")+": for an entry message that does not declare key = 1 first and value = 2 second the link disagrees with the entry's own ByNumber/ByName views")
	}
}
