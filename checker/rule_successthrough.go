package main

import (
	"go/ast"
	"go/token"
	"go/types"
	"strings"
)

// R-SUCCESS-THROUGH-UNMARSHAL (helper shared with C27): a function that
// promises "dst now holds the decoded message" may report success only through
// the decoder, because proto.Unmarshal is what resets the destination and
// checks required fields. An early `return nil` for an empty payload keeps the
// previous content of a reused destination.
func (c *Ctx) ruleSuccessThroughUnmarshal(rule string, keys []string) {
	R, P := c.R, c.P
	R.Rule(rule, "in each listed function every return is an error value, the result of proto.UnmarshalOptions.Unmarshal itself, or a `return nil` all of whose paths pass through that call", len(keys))
	for _, key := range keys {
		fi := c.need(rule, key)
		if fi == nil {
			continue
		}
		info := fi.Info()
		g := fi.CFG()
		bad := ""
		n := 0
		walk(fi.Decl.Body, func(x ast.Node) bool {
			rs, ok := x.(*ast.ReturnStmt)
			if !ok || len(rs.Results) == 0 {
				return true
			}
			n++
			last := rs.Results[len(rs.Results)-1]
			if !isNilIdent(info, last) {
				return true // an error value or the decoder's own result
			}
			if !g.DominatedByNode(rs, func(m ast.Node) bool {
				return containsCall(info, m, "proto.UnmarshalOptions.Unmarshal", "proto.Unmarshal") != nil
			}) {
				bad = P.Pos(rs)
			}
			return true
		})
		switch {
		case n == 0:
			R.Unk(rule, key, P.Pos(fi.Decl), "no return found")
		case bad != "":
			R.Bad(rule, key, bad, "reports success without having called the decoder: for such a payload (e.g. an empty one) the destination is not reset and required fields are not checked, so a reused destination keeps stale content")
		default:
			R.OK(rule, key, P.Pos(fi.Decl), itoa(n)+" returns; success only through Unmarshal")
		}
	}
}

// R-NULLVALUE-FIRST: google.protobuf.NullValue is written as JSON null whatever
// the enum options say; the enum-number and enum-name forms are reachable only
// for other enums.
func (c *Ctx) ruleNullValueFirst(rule string) {
	R, P := c.R, c.P
	R.Rule(rule, "in protojson.encoder.marshalSingular every WriteInt/WriteString of an enum value is dominated by the failing edge of `fd.Enum().FullName() == genid.NullValue_enum_fullname`", 2)
	fi := c.need(rule, "encoding/protojson.encoder.marshalSingular")
	if fi == nil {
		return
	}
	_ = fi.Info()
	var cc *ast.CaseClause
	walkAll(fi.Decl.Body, func(n ast.Node) bool {
		if cl, ok := n.(*ast.CaseClause); ok && cc == nil {
			for _, e := range cl.List {
				if strings.HasSuffix(exprStr(e), "EnumKind") {
					cc = cl
				}
			}
		}
		return true
	})
	if cc == nil {
		R.Unk(rule, fi.Key, P.Pos(fi.Decl), "case protoreflect.EnumKind not found")
		return
	}
	g := fi.CFG()
	n := 0
	for _, st := range cc.Body {
		walkAll(st, func(x ast.Node) bool {
			call, ok := x.(*ast.CallExpr)
			if !ok {
				return true
			}
			se, ok := call.Fun.(*ast.SelectorExpr)
			if !ok || (se.Sel.Name != "WriteInt" && se.Sel.Name != "WriteString" && se.Sel.Name != "WriteUint") {
				return true
			}
			n++
			ok = g.DominatedByCond(call, func(core ast.Expr, val bool) bool {
				be, isBE := unparen(core).(*ast.BinaryExpr)
				if !isBE {
					return false
				}
				s := exprStr(be)
				if !strings.Contains(s, "NullValue_enum_fullname") || !strings.Contains(s, "FullName()") {
					return false
				}
				return (be.Op == token.EQL && !val) || (be.Op == token.NEQ && val)
			})
			R.Check(ok, rule, fi.Key+" enum "+se.Sel.Name+"#"+itoa(n), P.Pos(call), "only for enums other than NullValue", "an enum value can be written as a number or name without NullValue having been excluded first: with UseEnumNumbers a google.protobuf.NullValue (in Value, Struct, ListValue) is written as 0 instead of null, which reads back as number_value 0")
			return true
		})
	}
	if n < 2 {
		R.Unk(rule, fi.Key+" enum writes", P.Pos(cc), "expected the number and the name form of an enum value")
	}
}

// R-INDENT-JSON-WS: the indent string is written between tokens, so it may
// consist of JSON insignificant whitespace only (RFC 8259: space, tab, LF, CR).
// The constructor has to reject anything else by trimming exactly such a
// cutset; Unicode-aware helpers (strings.TrimSpace, unicode.IsSpace) also
// accept \v, \f, U+0085, U+00A0, which are not JSON whitespace.
func (c *Ctx) ruleIndentJSONWhitespace(rule string) {
	R, P := c.R, c.P
	R.Rule(rule, "json.NewEncoder stores a non-empty indent only after `strings.Trim(indent, K) != \"\"` returned an error, with K a constant made of JSON whitespace bytes (space, tab, LF, CR)", 1)
	fi := c.need(rule, "internal/encoding/json.NewEncoder")
	if fi == nil {
		return
	}
	info := fi.Info()
	g := fi.CFG()
	n := 0
	walkAll(fi.Decl.Body, func(x ast.Node) bool {
		as, ok := x.(*ast.AssignStmt)
		if !ok || len(as.Lhs) != 1 || !strings.HasSuffix(exprStr(as.Lhs[0]), ".indent") {
			return true
		}
		n++
		why := "the indent is stored without a validity test"
		ok = g.DominatedByCond(as, func(core ast.Expr, val bool) bool {
			be, isBE := unparen(core).(*ast.BinaryExpr)
			if !isBE || !((be.Op == token.NEQ && !val) || (be.Op == token.EQL && val)) {
				return false
			}
			x, y := be.X, be.Y
			if constantString(info.Types[x].Value) == "" && info.Types[x].Value != nil {
				x, y = y, x
			}
			if info.Types[y].Value == nil || constantString(info.Types[y].Value) != "" {
				return false
			}
			call, isCall := unparen(x).(*ast.CallExpr)
			if !isCall {
				return false
			}
			k := calleeKey(info, call)
			if k != "strings.Trim" || len(call.Args) != 2 {
				if strings.HasPrefix(k, "strings.Trim") {
					why = "the indent is validated with " + k + ", which also strips characters that are not JSON whitespace (\\v, \\f, U+0085, U+00A0, …): such an indent is accepted and written between tokens, and the output is not JSON"
				}
				return false
			}
			tv := info.Types[call.Args[1]]
			if tv.Value == nil {
				return false
			}
			for _, r := range constantString(tv.Value) {
				if r != ' ' && r != '\t' && r != '\n' && r != '\r' {
					why = "the cutset of the indent test contains a character that is not JSON whitespace"
					return false
				}
			}
			return true
		})
		R.Check(ok, rule, fi.Key+" indent", P.Pos(as), "only space/tab/LF/CR", why)
		return true
	})
	if n == 0 {
		R.Unk(rule, fi.Key, P.Pos(fi.Decl), "assignment to the encoder's indent not found")
	}
}

// R-OPTIONS-FORWARD: messages without a MessageInfo (legacy and struct-tag-only
// children, dynamic messages below generated ones) are handled by calling back
// into package proto with options rebuilt from the fast path's flag word. Every
// option of the proto package has to be carried over, from the flag of the same
// name; an option that is dropped silently changes behaviour one level below
// such a child (maps no longer sorted under Deterministic, unknown fields kept
// under DiscardUnknown, the recursion budget starting over at the default, …).
var optionsForwardExceptions = map[string]string{}

func (c *Ctx) ruleOptionsForward(rule string) {
	R, P := c.R, c.P
	R.Rule(rule, "the proto.MarshalOptions / proto.UnmarshalOptions literals returned by impl.marshalOptions.Options and impl.unmarshalOptions.Options set every option field of the struct, each either to a constant or to the receiver's flag/field of the same name; reviewed exceptions only", 8)
	for _, key := range []string{"internal/impl.marshalOptions.Options", "internal/impl.unmarshalOptions.Options"} {
		fi := c.need(rule, key)
		if fi == nil {
			continue
		}
		info := fi.Info()
		var lit *ast.CompositeLit
		walk(fi.Decl.Body, func(n ast.Node) bool {
			if rs, ok := n.(*ast.ReturnStmt); ok && len(rs.Results) == 1 {
				lit, _ = unparen(rs.Results[0]).(*ast.CompositeLit)
			}
			return true
		})
		if lit == nil {
			R.Unk(rule, key, P.Pos(fi.Decl), "returned composite literal not found")
			continue
		}
		st, ok := info.TypeOf(lit).Underlying().(*types.Struct)
		if !ok {
			R.Unk(rule, key, P.Pos(lit), "literal is not a struct")
			continue
		}
		set := map[string]ast.Expr{}
		for _, el := range lit.Elts {
			if kv, ok := el.(*ast.KeyValueExpr); ok {
				set[exprStr(kv.Key)] = kv.Value
			}
		}
		for i := 0; i < st.NumFields(); i++ {
			f := st.Field(i)
			if !f.Exported() || strings.HasPrefix(namedTypeName(f.Type()), "internal/pragma.") {
				continue
			}
			ck := key + " " + f.Name()
			v, have := set[f.Name()]
			if !have {
				if why, ex := optionsForwardExceptions[ck]; ex {
					R.Exempt(rule, ck, P.Pos(lit), why)
					continue
				}
				R.Bad(rule, ck, P.Pos(lit), "the option "+f.Name()+" is not carried over into the options used for messages without a fast path: below a legacy, struct-tag-only or dynamic child the operation runs with the zero value of "+f.Name()+" whatever the caller asked for")
				continue
			}
			if info.Types[v].Value != nil {
				R.OK(rule, ck, P.Pos(v), "constant "+exprStr(v))
				continue
			}
			name := ""
			switch x := unparen(v).(type) {
			case *ast.CallExpr:
				if se, ok := x.Fun.(*ast.SelectorExpr); ok && len(x.Args) == 0 {
					name = se.Sel.Name
				}
			case *ast.SelectorExpr:
				name = x.Sel.Name
			}
			R.Check(strings.EqualFold(name, f.Name()), rule, ck, P.Pos(v), "from the receiver's "+name, "the option "+f.Name()+" is set from `"+exprStr(v)+"`, not from the receiver's flag of the same name")
		}
	}
}

// R-LEGACY-GUARD-TAGS: legacyLoadMessageDesc trusts a message's own
// Descriptor() only if the struct "looks generated". The markers it accepts
// have to include every struct tag by which the struct-tag loader
// (aberrantLoadMessageDescReentrant) recognises a field of its own: a struct
// whose only proto fields are oneof interface fields carries protobuf_oneof
// tags only.
func (c *Ctx) ruleLegacyGuardTags(rule string) {
	R, P := c.R, c.P
	R.Rule(rule, "the struct-tag keys tested by legacyLoadMessageDesc's looks-generated guard ⊇ the keys whose non-empty value makes aberrantLoadMessageDescReentrant add a field or oneof (the `if tag := f.Tag.Get(K); tag != \"\"` heads)", 1)
	guard := c.need(rule, "internal/impl.legacyLoadMessageDesc")
	loader := c.need(rule, "internal/impl.aberrantLoadMessageDescReentrant")
	if guard == nil || loader == nil {
		return
	}
	tagKeys := func(fi *FuncInfo, headsOnly bool) map[string]bool {
		info := fi.Info()
		out := map[string]bool{}
		visit := func(n ast.Node) {
			walkAll(n, func(m ast.Node) bool {
				call, ok := m.(*ast.CallExpr)
				if !ok || len(call.Args) != 1 {
					return true
				}
				k := calleeKey(info, call)
				if k == "reflect.StructTag.Get" || k == "reflect.StructTag.Lookup" {
					if s := constantString(info.Types[call.Args[0]].Value); s != "" {
						out[s] = true
					}
				}
				return true
			})
		}
		if !headsOnly {
			visit(fi.Decl.Body)
			return out
		}
		walkAll(fi.Decl.Body, func(m ast.Node) bool {
			if is, ok := m.(*ast.IfStmt); ok && is.Init != nil {
				visit(is.Init)
			}
			return true
		})
		return out
	}
	g, l := tagKeys(guard, false), tagKeys(loader, true)
	if len(g) == 0 || len(l) == 0 {
		R.Unk(rule, guard.Key, P.Pos(guard.Decl), "struct tag keys not found (guard "+itoa(len(g))+", loader "+itoa(len(l))+")")
		return
	}
	missing := setDiff(l, g)
	R.Check(len(missing) == 0, rule, guard.Key+" looks-generated guard", P.Pos(guard.Decl), "tests {"+strings.Join(sortedSet(g), ", ")+"}", "the guard does not test the struct tag(s) {"+strings.Join(missing, ", ")+"} by which the struct-tag loader recognises fields: a legacy generated message whose struct has only such fields (for instance only oneof interface fields) has its own Descriptor() ignored and gets a tag-derived descriptor with another full name, proto2 syntax and no parent file")
}

// R-STABLE-ELEMENT-POINTERS: the struct-tag loader links descriptors by
// pointers to elements of the lists it is still building (`&md.L2.Fields.List[n]`
// stored as a oneof member, `&md.L2.Oneofs.List[n]` as a containing oneof,
// `&md.L1.Messages.List[n]` as a map field's entry message). A later append
// that reallocates the list leaves those links pointing at stale copies. The
// lists whose element pointers are retained have to be reserved up front
// (make with a capacity), so that growing them never moves the elements.
func (c *Ctx) ruleStableElementPointers(rule string) {
	R, P := c.R, c.P
	R.Rule(rule, "in impl's struct-tag loader every list whose element address (&X.List[i]) is stored into another descriptor (field store or append) and which is grown by append is reserved with make([]T, 0, cap) in aberrantLoadMessageDescReentrant before it grows", 3)
	fns := []*FuncInfo{c.need(rule, "internal/impl.aberrantLoadMessageDescReentrant"), c.need(rule, "internal/impl.aberrantAppendField")}
	if fns[0] == nil || fns[1] == nil {
		return
	}
	tail := func(e ast.Expr) string { // "L2.Fields.List"
		s := exprStr(e)
		if i := strings.Index(s, ".L"); i >= 0 {
			return s[i+1:]
		}
		return s
	}
	reserved := map[string]bool{}
	walkAll(fns[0].Decl.Body, func(n ast.Node) bool {
		as, ok := n.(*ast.AssignStmt)
		if !ok || len(as.Lhs) != 1 || len(as.Rhs) != 1 {
			return true
		}
		call, ok := unparen(as.Rhs[0]).(*ast.CallExpr)
		if ok && exprStr(call.Fun) == "make" && len(call.Args) == 3 {
			reserved[tail(as.Lhs[0])] = true
		}
		return true
	})
	n := 0
	for _, fi := range fns {
		info := fi.Info()
		elemPtr := map[types.Object]string{} // pointer variable → list tail
		walkAll(fi.Decl.Body, func(m ast.Node) bool {
			as, ok := m.(*ast.AssignStmt)
			if !ok || len(as.Lhs) != 1 || len(as.Rhs) != 1 {
				return true
			}
			ue, ok := unparen(as.Rhs[0]).(*ast.UnaryExpr)
			if !ok || ue.Op != token.AND {
				return true
			}
			ie, ok := unparen(ue.X).(*ast.IndexExpr)
			if !ok || !strings.HasSuffix(exprStr(ie.X), ".List") {
				return true
			}
			if o := objOf(info, as.Lhs[0]); o != nil {
				elemPtr[o] = tail(ie.X)
			}
			return true
		})
		retained := map[string]string{}
		walkAll(fi.Decl.Body, func(m ast.Node) bool {
			as, ok := m.(*ast.AssignStmt)
			if !ok || len(as.Lhs) != 1 || len(as.Rhs) != 1 {
				return true
			}
			// field store: x.F = p   (x is not p itself)
			if id, ok := unparen(as.Rhs[0]).(*ast.Ident); ok {
				if l, ok := elemPtr[info.Uses[id]]; ok {
					if se, ok := unparen(as.Lhs[0]).(*ast.SelectorExpr); ok {
						if r := rootIdent(se); r == nil || info.Uses[r] != info.Uses[id] {
							retained[l] = P.Pos(as)
						}
					}
				}
			}
			// append(list, p)
			if call, ok := unparen(as.Rhs[0]).(*ast.CallExpr); ok && exprStr(call.Fun) == "append" {
				for _, a := range call.Args[1:] {
					if id, ok := unparen(a).(*ast.Ident); ok {
						if l, ok := elemPtr[info.Uses[id]]; ok {
							retained[l] = P.Pos(as)
						}
					}
				}
			}
			return true
		})
		for _, l := range sortedKeysS(retained) {
			n++
			R.Check(reserved[l], rule, fi.Key+" retains &"+l+"[i]", retained[l], "list reserved with make(…, 0, cap)", "a pointer to an element of "+l+" is stored into another descriptor while the list is still grown by append and was not reserved up front: after a reallocation the link points at a stale copy, so a oneof's members and a field's ContainingOneof()/Message() are not the descriptors the message's own lists hand out (m.Get(m.WhichOneof(od)) panics with `mismatching field`)")
		}
	}
	if n == 0 {
		R.Unk(rule, fns[0].Key, P.Pos(fns[0].Decl), "no retained element pointer found")
	}
}

func sortedKeysS(m map[string]string) []string {
	var ks []string
	for k := range m {
		ks = append(ks, k)
	}
	sortStrings(ks)
	return ks
}
