package main

import (
	"go/ast"
	"go/token"
	"go/types"
	"strings"
)

// R-SUCCESS-THROUGH-UNMARSHAL (helper shared with C27): a function that
// promises "dst now holds the decoded message" may report success only through
// the decoder, because proto.Unmarshal is what resets the destination and
// checks required fields. An early `return nil` for an empty payload keeps the
// previous content of a reused destination.
func (c *Ctx) ruleSuccessThroughUnmarshal(rule string, keys []string) {
	R, P := c.R, c.P
	R.Rule(rule, "in each listed function every return is an error value, the result of proto.UnmarshalOptions.Unmarshal itself, or a `return nil` all of whose paths pass through that call", len(keys))
	for _, key := range keys {
		fi := c.need(rule, key)
		if fi == nil {
			continue
		}
		info := fi.Info()
		g := fi.CFG()
		bad := ""
		n := 0
		walk(fi.Decl.Body, func(x ast.Node) bool {
			rs, ok := x.(*ast.ReturnStmt)
			if !ok || len(rs.Results) == 0 {
				return true
			}
			n++
			last := rs.Results[len(rs.Results)-1]
			if !isNilIdent(info, last) {
				return true // an error value or the decoder's own result
			}
			if !g.DominatedByNode(rs, func(m ast.Node) bool {
				return containsCall(info, m, "proto.UnmarshalOptions.Unmarshal", "proto.Unmarshal") != nil
			}) {
				bad = P.Pos(rs)
			}
			return true
		})
		switch {
		case n == 0:
			R.Unk(rule, key, P.Pos(fi.Decl), "no return found")
		case bad != "":
			R.Bad(rule, key, bad, "reports success without having called the decoder: for such a payload (e.g. an empty one) the destination is not reset and required fields are not checked, so a reused destination keeps stale content")
		default:
			R.OK(rule, key, P.Pos(fi.Decl), itoa(n)+" returns; success only through Unmarshal")
		}
	}
}

// R-NULLVALUE-FIRST: google.protobuf.NullValue is written as JSON null whatever
// the enum options say; the enum-number and enum-name forms are reachable only
// for other enums.
func (c *Ctx) ruleNullValueFirst(rule string) {
	R, P := c.R, c.P
	R.Rule(rule, "in protojson.encoder.marshalSingular every WriteInt/WriteString of an enum value is dominated by the failing edge of `fd.Enum().FullName() == genid.NullValue_enum_fullname`", 2)
	fi := c.need(rule, "encoding/protojson.encoder.marshalSingular")
	if fi == nil {
		return
	}
	_ = fi.Info()
	var cc *ast.CaseClause
	walkAll(fi.Decl.Body, func(n ast.Node) bool {
		if cl, ok := n.(*ast.CaseClause); ok && cc == nil {
			for _, e := range cl.List {
				if strings.HasSuffix(exprStr(e), "EnumKind") {
					cc = cl
				}
			}
		}
		return true
	})
	if cc == nil {
		R.Unk(rule, fi.Key, P.Pos(fi.Decl), "case protoreflect.EnumKind not found")
		return
	}
	g := fi.CFG()
	n := 0
	for _, st := range cc.Body {
		walkAll(st, func(x ast.Node) bool {
			call, ok := x.(*ast.CallExpr)
			if !ok {
				return true
			}
			se, ok := call.Fun.(*ast.SelectorExpr)
			if !ok || (se.Sel.Name != "WriteInt" && se.Sel.Name != "WriteString" && se.Sel.Name != "WriteUint") {
				return true
			}
			n++
			ok = g.DominatedByCond(call, func(core ast.Expr, val bool) bool {
				be, isBE := unparen(core).(*ast.BinaryExpr)
				if !isBE {
					return false
				}
				s := exprStr(be)
				if !strings.Contains(s, "NullValue_enum_fullname") || !strings.Contains(s, "FullName()") {
					return false
				}
				return (be.Op == token.EQL && !val) || (be.Op == token.NEQ && val)
			})
			R.Check(ok, rule, fi.Key+" enum "+se.Sel.Name+"#"+itoa(n), P.Pos(call), "only for enums other than NullValue", "an enum value can be written as a number or name without NullValue having been excluded first: with UseEnumNumbers a google.protobuf.NullValue (in Value, Struct, ListValue) is written as 0 instead of null, which reads back as number_value 0")
			return true
		})
	}
	if n < 2 {
		R.Unk(rule, fi.Key+" enum writes", P.Pos(cc), "expected the number and the name form of an enum value")
	}
}

// R-INDENT-JSON-WS: the indent string is written between tokens, so it may
// consist of JSON insignificant whitespace only (RFC 8259: space, tab, LF, CR).
// The constructor has to reject anything else by trimming exactly such a
// cutset; Unicode-aware helpers (strings.TrimSpace, unicode.IsSpace) also
// accept \v, \f, U+0085, U+00A0, which are not JSON whitespace.
func (c *Ctx) ruleIndentJSONWhitespace(rule string) {
	R, P := c.R, c.P
	R.Rule(rule, "json.NewEncoder stores a non-empty indent only after `strings.Trim(indent, K) != \"\"` returned an error, with K a constant made of JSON whitespace bytes (space, tab, LF, CR)", 1)
	fi := c.need(rule, "internal/encoding/json.NewEncoder")
	if fi == nil {
		return
	}
	info := fi.Info()
	g := fi.CFG()
	n := 0
	walkAll(fi.Decl.Body, func(x ast.Node) bool {
		as, ok := x.(*ast.AssignStmt)
		if !ok || len(as.Lhs) != 1 || !strings.HasSuffix(exprStr(as.Lhs[0]), ".indent") {
			return true
		}
		n++
		why := "the indent is stored without a validity test"
		ok = g.DominatedByCond(as, func(core ast.Expr, val bool) bool {
			be, isBE := unparen(core).(*ast.BinaryExpr)
			if !isBE || !((be.Op == token.NEQ && !val) || (be.Op == token.EQL && val)) {
				return false
			}
			x, y := be.X, be.Y
			if constantString(info.Types[x].Value) == "" && info.Types[x].Value != nil {
				x, y = y, x
			}
			if info.Types[y].Value == nil || constantString(info.Types[y].Value) != "" {
				return false
			}
			call, isCall := unparen(x).(*ast.CallExpr)
			if !isCall {
				return false
			}
			k := calleeKey(info, call)
			if k != "strings.Trim" || len(call.Args) != 2 {
				if strings.HasPrefix(k, "strings.Trim") {
					why = "the indent is validated with " + k + ", which also strips characters that are not JSON whitespace (\\v, \\f, U+0085, U+00A0, …): such an indent is accepted and written between tokens, and the output is not JSON"
				}
				return false
			}
			tv := info.Types[call.Args[1]]
			if tv.Value == nil {
				return false
			}
			for _, r := range constantString(tv.Value) {
				if r != ' ' && r != '\t' && r != '\n' && r != '\r' {
					why = "the cutset of the indent test contains a character that is not JSON whitespace"
					return false
				}
			}
			return true
		})
		R.Check(ok, rule, fi.Key+" indent", P.Pos(as), "only space/tab/LF/CR", why)
		return true
	})
	if n == 0 {
		R.Unk(rule, fi.Key, P.Pos(fi.Decl), "assignment to the encoder's indent not found")
	}
}

// R-OPTIONS-FORWARD: messages without a MessageInfo (legacy and struct-tag-only
// children, dynamic messages below generated ones) are handled by calling back
// into package proto with options rebuilt from the fast path's flag word. Every
// option of the proto package has to be carried over, from the flag of the same
// name; an option that is dropped silently changes behaviour one level below
// such a child (maps no longer sorted under Deterministic, unknown fields kept
// under DiscardUnknown, the recursion budget starting over at the default, …).
var optionsForwardExceptions = map[string]string{}

func (c *Ctx) ruleOptionsForward(rule string) {
	R, P := c.R, c.P
	R.Rule(rule, "the proto.MarshalOptions / proto.UnmarshalOptions literals returned by impl.marshalOptions.Options and impl.unmarshalOptions.Options set every option field of the struct, each either to a constant or to the receiver's flag/field of the same name; reviewed exceptions only", 8)
	for _, key := range []string{"internal/impl.marshalOptions.Options", "internal/impl.unmarshalOptions.Options"} {
		fi := c.need(rule, key)
		if fi == nil {
			continue
		}
		info := fi.Info()
		var lit *ast.CompositeLit
		walk(fi.Decl.Body, func(n ast.Node) bool {
			if rs, ok := n.(*ast.ReturnStmt); ok && len(rs.Results) == 1 {
				lit, _ = unparen(rs.Results[0]).(*ast.CompositeLit)
			}
			return true
		})
		if lit == nil {
			R.Unk(rule, key, P.Pos(fi.Decl), "returned composite literal not found")
			continue
		}
		st, ok := info.TypeOf(lit).Underlying().(*types.Struct)
		if !ok {
			R.Unk(rule, key, P.Pos(lit), "literal is not a struct")
			continue
		}
		set := map[string]ast.Expr{}
		for _, el := range lit.Elts {
			if kv, ok := el.(*ast.KeyValueExpr); ok {
				set[exprStr(kv.Key)] = kv.Value
			}
		}
		for i := 0; i < st.NumFields(); i++ {
			f := st.Field(i)
			if !f.Exported() || strings.HasPrefix(namedTypeName(f.Type()), "internal/pragma.") {
				continue
			}
			ck := key + " " + f.Name()
			v, have := set[f.Name()]
			if !have {
				if why, ex := optionsForwardExceptions[ck]; ex {
					R.Exempt(rule, ck, P.Pos(lit), why)
					continue
				}
				R.Bad(rule, ck, P.Pos(lit), "the option "+f.Name()+" is not carried over into the options used for messages without a fast path: below a legacy, struct-tag-only or dynamic child the operation runs with the zero value of "+f.Name()+" whatever the caller asked for")
				continue
			}
			if info.Types[v].Value != nil {
				R.OK(rule, ck, P.Pos(v), "constant "+exprStr(v))
				continue
			}
			name := ""
			switch x := unparen(v).(type) {
			case *ast.CallExpr:
				if se, ok := x.Fun.(*ast.SelectorExpr); ok && len(x.Args) == 0 {
					name = se.Sel.Name
				}
			case *ast.SelectorExpr:
				name = x.Sel.Name
			}
			R.Check(strings.EqualFold(name, f.Name()), rule, ck, P.Pos(v), "from the receiver's "+name, "the option "+f.Name()+" is set from `"+exprStr(v)+"`, not from the receiver's flag of the same name")
		}
	}
}

// R-LEGACY-GUARD-TAGS: legacyLoadMessageDesc trusts a message's own
// Descriptor() only if the struct "looks generated". The markers it accepts
// have to include every struct tag by which the struct-tag loader
// (aberrantLoadMessageDescReentrant) recognises a field of its own: a struct
// whose only proto fields are oneof interface fields carries protobuf_oneof
// tags only.
func (c *Ctx) ruleLegacyGuardTags(rule string) {
	R, P := c.R, c.P
	R.Rule(rule, "the struct-tag keys tested by legacyLoadMessageDesc's looks-generated guard ⊇ the keys whose non-empty value makes aberrantLoadMessageDescReentrant add a field or oneof (the `if tag := f.Tag.Get(K); tag != \"\"` heads)", 1)
	guard := c.need(rule, "internal/impl.legacyLoadMessageDesc")
	loader := c.need(rule, "internal/impl.aberrantLoadMessageDescReentrant")
	if guard == nil || loader == nil {
		return
	}
	tagKeys := func(fi *FuncInfo, headsOnly bool) map[string]bool {
		info := fi.Info()
		out := map[string]bool{}
		visit := func(n ast.Node) {
			walkAll(n, func(m ast.Node) bool {
				call, ok := m.(*ast.CallExpr)
				if !ok || len(call.Args) != 1 {
					return true
				}
				k := calleeKey(info, call)
				if k == "reflect.StructTag.Get" || k == "reflect.StructTag.Lookup" {
					if s := constantString(info.Types[call.Args[0]].Value); s != "" {
						out[s] = true
					}
				}
				return true
			})
		}
		if !headsOnly {
			visit(fi.Decl.Body)
			return out
		}
		walkAll(fi.Decl.Body, func(m ast.Node) bool {
			if is, ok := m.(*ast.IfStmt); ok && is.Init != nil {
				visit(is.Init)
			}
			return true
		})
		return out
	}
	g, l := tagKeys(guard, false), tagKeys(loader, true)
	if len(g) == 0 || len(l) == 0 {
		R.Unk(rule, guard.Key, P.Pos(guard.Decl), "struct tag keys not found (guard "+itoa(len(g))+", loader "+itoa(len(l))+")")
		return
	}
	missing := setDiff(l, g)
	R.Check(len(missing) == 0, rule, guard.Key+" looks-generated guard", P.Pos(guard.Decl), "tests {"+strings.Join(sortedSet(g), ", ")+"}", "the guard does not test the struct tag(s) {"+strings.Join(missing, ", ")+"} by which the struct-tag loader recognises fields: a legacy generated message whose struct has only such fields (for instance only oneof interface fields) has its own Descriptor() ignored and gets a tag-derived descriptor with another full name, proto2 syntax and no parent file")
}

// R-STABLE-ELEMENT-POINTERS: the struct-tag loader links descriptors by
// pointers to elements of the lists it is still building (`&md.L2.Fields.List[n]`
// stored as a oneof member, `&md.L2.Oneofs.List[n]` as a containing oneof,
// `&md.L1.Messages.List[n]` as a map field's entry message). A later append
// that reallocates the list leaves those links pointing at stale copies. The
// lists whose element pointers are retained have to be reserved up front
// (make with a capacity), so that growing them never moves the elements.
func (c *Ctx) ruleStableElementPointers(rule string) {
	R, P := c.R, c.P
	R.Rule(rule, "in impl's struct-tag loader every list whose element address (&X.List[i]) is stored into another descriptor (field store or append) and which is grown by append is reserved with make([]T, 0, cap) in aberrantLoadMessageDescReentrant before it grows", 3)
	fns := []*FuncInfo{c.need(rule, "internal/impl.aberrantLoadMessageDescReentrant"), c.need(rule, "internal/impl.aberrantAppendField")}
	if fns[0] == nil || fns[1] == nil {
		return
	}
	tail := func(e ast.Expr) string { // "L2.Fields.List"
		s := exprStr(e)
		if i := strings.Index(s, ".L"); i >= 0 {
			return s[i+1:]
		}
		return s
	}
	reserved := map[string]bool{}
	walkAll(fns[0].Decl.Body, func(n ast.Node) bool {
		as, ok := n.(*ast.AssignStmt)
		if !ok || len(as.Lhs) != 1 || len(as.Rhs) != 1 {
			return true
		}
		call, ok := unparen(as.Rhs[0]).(*ast.CallExpr)
		if ok && exprStr(call.Fun) == "make" && len(call.Args) == 3 {
			reserved[tail(as.Lhs[0])] = true
		}
		return true
	})
	n := 0
	for _, fi := range fns {
		info := fi.Info()
		elemPtr := map[types.Object]string{} // pointer variable → list tail
		walkAll(fi.Decl.Body, func(m ast.Node) bool {
			as, ok := m.(*ast.AssignStmt)
			if !ok || len(as.Lhs) != 1 || len(as.Rhs) != 1 {
				return true
			}
			ue, ok := unparen(as.Rhs[0]).(*ast.UnaryExpr)
			if !ok || ue.Op != token.AND {
				return true
			}
			ie, ok := unparen(ue.X).(*ast.IndexExpr)
			if !ok || !strings.HasSuffix(exprStr(ie.X), ".List") {
				return true
			}
			if o := objOf(info, as.Lhs[0]); o != nil {
				elemPtr[o] = tail(ie.X)
			}
			return true
		})
		retained := map[string]string{}
		walkAll(fi.Decl.Body, func(m ast.Node) bool {
			as, ok := m.(*ast.AssignStmt)
			if !ok || len(as.Lhs) != 1 || len(as.Rhs) != 1 {
				return true
			}
			// field store: x.F = p   (x is not p itself)
			if id, ok := unparen(as.Rhs[0]).(*ast.Ident); ok {
				if l, ok := elemPtr[info.Uses[id]]; ok {
					if se, ok := unparen(as.Lhs[0]).(*ast.SelectorExpr); ok {
						if r := rootIdent(se); r == nil || info.Uses[r] != info.Uses[id] {
							retained[l] = P.Pos(as)
						}
					}
				}
			}
			// append(list, p)
			if call, ok := unparen(as.Rhs[0]).(*ast.CallExpr); ok && exprStr(call.Fun) == "append" {
				for _, a := range call.Args[1:] {
					if id, ok := unparen(a).(*ast.Ident); ok {
						if l, ok := elemPtr[info.Uses[id]]; ok {
							retained[l] = P.Pos(as)
						}
					}
				}
			}
			return true
		})
		for _, l := range sortedKeysS(retained) {
			n++
			R.Check(reserved[l], rule, fi.Key+" retains &"+l+"[i]", retained[l], "list reserved with make(…, 0, cap)", "a pointer to an element of "+l+" is stored into another descriptor while the list is still grown by append and was not reserved up front: after a reallocation the link points at a stale copy, so a oneof's members and a field's ContainingOneof()/Message() are not the descriptors the message's own lists hand out (m.Get(m.WhichOneof(od)) panics with `mismatching field`)")
		}
	}
	if n == 0 {
		R.Unk(rule, fns[0].Key, P.Pos(fns[0].Decl), "no retained element pointer found")
	}
}

func sortedKeysS(m map[string]string) []string {
	var ks []string
	for k := range m {
		ks = append(ks, k)
	}
	sortStrings(ks)
	return ks
}

// R-MAPKEY-PARSE: JSON object names that are map keys are parsed according to
// the key kind: unsigned kinds with strconv.ParseUint, signed kinds with
// strconv.ParseInt, with the bit size of the kind. ParseInt for a uint32 key
// rejects keys from 2^31 up, which Marshal writes.
func (c *Ctx) ruleMapKeyParse(rule string) {
	R, P := c.R, c.P
	R.Rule(rule, "in protojson.decoder.unmarshalMapKey every integer key kind is parsed by the strconv function of its signedness (ParseInt for Int*/Sint*/Sfixed*, ParseUint for Uint*/Fixed*) with the bit size of the kind", 4)
	fi := c.need(rule, "encoding/protojson.decoder.unmarshalMapKey")
	if fi == nil {
		return
	}
	info := fi.Info()
	n := 0
	walkAll(fi.Decl.Body, func(x ast.Node) bool {
		cc, ok := x.(*ast.CaseClause)
		if !ok || len(cc.List) == 0 {
			return true
		}
		signed, unsigned, bits := false, false, int64(0)
		var labels []string
		for _, e := range cc.List {
			name := exprStr(e)
			name = name[strings.LastIndex(name, ".")+1:]
			if !strings.HasSuffix(name, "Kind") {
				return true
			}
			labels = append(labels, name)
			k := strings.TrimSuffix(name, "Kind")
			switch {
			case strings.HasPrefix(k, "Uint") || strings.HasPrefix(k, "Fixed"):
				unsigned = true
			case strings.HasPrefix(k, "Int") || strings.HasPrefix(k, "Sint") || strings.HasPrefix(k, "Sfixed"):
				signed = true
			default:
				return true
			}
			b := int64(64)
			if strings.HasSuffix(k, "32") {
				b = 32
			}
			if bits != 0 && bits != b {
				bits = -1
			} else if bits == 0 {
				bits = b
			}
		}
		if signed == unsigned {
			return true
		}
		var call *ast.CallExpr
		for _, st := range cc.Body {
			walkAll(st, func(m ast.Node) bool {
				if cl, ok := m.(*ast.CallExpr); ok && call == nil {
					if k := calleeKey(info, cl); k == "strconv.ParseInt" || k == "strconv.ParseUint" {
						call = cl
					}
				}
				return true
			})
		}
		n++
		key := fi.Key + " case " + strings.Join(labels, ",")
		if call == nil {
			R.Unk(rule, key, P.Pos(cc), "no strconv.ParseInt/ParseUint call in the clause")
			return true
		}
		fn := calleeKey(info, call)
		wantFn := "strconv.ParseInt"
		if unsigned {
			wantFn = "strconv.ParseUint"
		}
		bs, okb := int64(0), false
		if len(call.Args) == 3 {
			bs, okb = constInt(info, call.Args[2])
		}
		switch {
		case fn != wantFn:
			R.Bad(rule, key, P.Pos(call), "the key is parsed with "+fn+" although the kind is "+map[bool]string{true: "unsigned", false: "signed"}[unsigned]+": keys outside the other type's range (for uint32: 2^31 and up, which Marshal writes) are rejected, or negative keys accepted and wrapped")
		case !okb || bs != bits:
			R.Bad(rule, key, P.Pos(call), "the key is parsed with bit size `"+exprStr(call.Args[len(call.Args)-1])+"`, not "+itoa(int(bits))+": out-of-range keys wrap, or in-range keys are rejected")
		default:
			R.OK(rule, key, P.Pos(call), fn+" with "+itoa(int(bits))+" bits")
		}
		return true
	})
	if n == 0 {
		R.Unk(rule, fi.Key, P.Pos(fi.Decl), "no integer key clauses found")
	}
}

// R-FLOAT-EXP-CLEANUP: strconv writes exponents with at least two digits
// (e-07); the JSON writer drops the padding zero. The byte it drops has to be
// established as '0' at that point, or the tens digit of a genuine two-digit
// exponent (e-10 … e-99) is deleted and the number changes value.
func (c *Ctx) ruleFloatExpCleanup(rule string) {
	R, P := c.R, c.P
	R.Rule(rule, "in json.appendFloat every statement that shortens the formatted number (re-slicing out to a smaller length, or appending onto a prefix of out) is dominated by the passing edge of `out[n-2] == '0'`, the byte being dropped", 1)
	fi := c.need(rule, "internal/encoding/json.appendFloat")
	if fi == nil {
		return
	}
	info := fi.Info()
	g := fi.CFG()
	var outObj types.Object
	if len(fi.Decl.Type.Params.List) > 0 {
		outObj = info.Defs[fi.Decl.Type.Params.List[0].Names[0]]
	}
	n := 0
	walkAll(fi.Decl.Body, func(x ast.Node) bool {
		as, ok := x.(*ast.AssignStmt)
		if !ok || len(as.Lhs) != 1 || len(as.Rhs) != 1 || objOf(info, as.Lhs[0]) != outObj {
			return true
		}
		shortens := false
		switch r := unparen(as.Rhs[0]).(type) {
		case *ast.SliceExpr:
			shortens = objOf(info, r.X) == outObj && r.High != nil
		case *ast.CallExpr:
			if calleeKey(info, r) == "builtin.append" && len(r.Args) >= 1 {
				if se, ok := unparen(r.Args[0]).(*ast.SliceExpr); ok && objOf(info, se.X) == outObj && se.High != nil {
					shortens = true
				}
			}
		}
		if !shortens {
			return true
		}
		n++
		ok = g.DominatedByCond(as, func(core ast.Expr, val bool) bool {
			be, isBE := unparen(core).(*ast.BinaryExpr)
			if !isBE || be.Op != token.EQL || !val {
				return false
			}
			ie, isIdx := unparen(be.X).(*ast.IndexExpr)
			if !isIdx || objOf(info, ie.X) != outObj {
				return false
			}
			v, isC := constInt(info, be.Y)
			return isC && v == '0' && strings.HasSuffix(strings.ReplaceAll(exprStr(ie.Index), " ", ""), "-2")
		})
		R.Check(ok, rule, fi.Key+" exponent clean-up#"+itoa(n), P.Pos(as), "drops a byte known to be '0'", "the formatted number is shortened by one exponent digit without the test that this digit is the padding '0': for exponents e-10 to e-99 the tens digit is deleted (2.5e-10 is written as 2.5e-0), valid JSON with another value")
		return true
	})
	if n == 0 {
		R.Unk(rule, fi.Key, P.Pos(fi.Decl), "exponent clean-up not found")
	}
}

// R-CONFLICT-POLICY: a registration conflict is an error for every registry;
// only the global registries may ignore it, and only if the conflict policy
// says so. Each condition that consults ignoreConflict is evaluated over the
// two atoms "r is the global registry" and "ignoreConflict(...)": a guard of
// `return err` has to hold exactly unless both are true, a guard of `err = nil`
// exactly when both are true.
func (c *Ctx) ruleConflictPolicy(rule string) {
	R, P := c.R, c.P
	R.Rule(rule, "every condition in reflect/protoregistry that calls ignoreConflict, evaluated for the four valuations of (r == Global*, ignoreConflict(...)), suppresses the conflict error only when both hold", 5)
	for _, fi := range P.FuncsIn("reflect/protoregistry") {
		if fi.Decl.Body == nil {
			continue
		}
		k := 0
		walkAll(fi.Decl.Body, func(n ast.Node) bool {
			is, ok := n.(*ast.IfStmt)
			if !ok || !strings.Contains(exprStr(is.Cond), "ignoreConflict(") {
				return true
			}
			k++
			key := fi.Key + " conflict test#" + itoa(k)
			undec := ""
			var eval func(e ast.Expr, g, i bool) bool
			eval = func(e ast.Expr, g, i bool) bool {
				switch x := unparen(e).(type) {
				case *ast.CallExpr:
					if strings.HasPrefix(exprStr(x), "ignoreConflict(") {
						return i
					}
				case *ast.UnaryExpr:
					if x.Op == token.NOT {
						return !eval(x.X, g, i)
					}
				case *ast.BinaryExpr:
					switch x.Op {
					case token.LAND:
						return eval(x.X, g, i) && eval(x.Y, g, i)
					case token.LOR:
						return eval(x.X, g, i) || eval(x.Y, g, i)
					case token.EQL, token.NEQ:
						s := exprStr(x.X) + " " + exprStr(x.Y)
						if strings.Contains(s, "Global") {
							return g == (x.Op == token.EQL)
						}
					}
				}
				undec = exprStr(e)
				return false
			}
			// what does the body do?
			action := ""
			if len(is.Body.List) == 1 {
				switch b := is.Body.List[0].(type) {
				case *ast.ReturnStmt:
					action = "return"
				case *ast.AssignStmt:
					if len(b.Rhs) == 1 && exprStr(b.Rhs[0]) == "nil" {
						action = "clear"
					}
				}
			}
			if action == "" {
				R.Unk(rule, key, P.Pos(is), "body of the conflict test is neither `return err` nor `err = nil`")
				return true
			}
			var wrong []string
			for _, g := range []bool{false, true} {
				for _, i := range []bool{false, true} {
					got := eval(is.Cond, g, i)
					want := g && i // suppress
					if action == "return" {
						want = !want
					}
					if got != want {
						reg := "a local registry"
						if g {
							reg = "the global registry"
						}
						pol := "policy says report"
						if i {
							pol = "policy says ignore"
						}
						wrong = append(wrong, reg+", "+pol)
					}
				}
			}
			switch {
			case undec != "":
				R.Unk(rule, key, P.Pos(is), "cannot evaluate `"+undec+"`")
			case len(wrong) > 0:
				R.Bad(rule, key, P.Pos(is), "for {"+strings.Join(wrong, "; ")+"} the conflict is handled the wrong way round: a second registration of a name (or path, or extension number) is accepted silently where it must be reported, and the later entry replaces the earlier one")
			default:
				R.OK(rule, key, P.Pos(is), "suppressed only for the global registry under the ignore policy")
			}
			return true
		})
	}
}

// R-RANGE-STOP: a Range method stops at the first false result of the
// callback. Inside nested loops that takes a return; break or continue only
// leave the innermost loop and the iteration goes on.
func (c *Ctx) ruleRangeStop(rule string, pkg string, floor int) {
	R, P := c.R, c.P
	R.Rule(rule, "in every Range* method of "+pkg+" the test `!f(x)` on the callback parameter is followed by return (not break/continue/goto)", floor)
	for _, fi := range P.FuncsIn(pkg) {
		if fi.Decl.Body == nil || !strings.HasPrefix(fi.Obj.Name(), "Range") {
			continue
		}
		info := fi.Info()
		cb := map[types.Object]bool{}
		for _, f := range fi.Decl.Type.Params.List {
			for _, nm := range f.Names {
				if _, ok := info.Defs[nm].Type().Underlying().(*types.Signature); ok {
					cb[info.Defs[nm]] = true
				}
			}
		}
		k := 0
		walkAll(fi.Decl.Body, func(n ast.Node) bool {
			is, ok := n.(*ast.IfStmt)
			if !ok {
				return true
			}
			ue, ok := unparen(is.Cond).(*ast.UnaryExpr)
			if !ok || ue.Op != token.NOT {
				return true
			}
			call, ok := unparen(ue.X).(*ast.CallExpr)
			if !ok {
				return true
			}
			id, ok := call.Fun.(*ast.Ident)
			if !ok || !cb[info.Uses[id]] {
				return true
			}
			k++
			last := is.Body.List[len(is.Body.List)-1]
			_, isRet := last.(*ast.ReturnStmt)
			R.Check(isRet, rule, fi.Key+" stop#"+itoa(k), P.Pos(is), "returns", "after the callback returned false the method does `"+exprStr2(last)+"` instead of returning: only the innermost loop is left and the callback keeps being called for the remaining elements")
			return true
		})
	}
}

func exprStr2(s ast.Stmt) string {
	switch x := s.(type) {
	case *ast.BranchStmt:
		return x.Tok.String()
	case *ast.ExprStmt:
		return exprStr(x.X)
	}
	return "…"
}
