package main

import (
	"go/ast"
	"go/token"
	"strings"
)

// R-SUCCESS-THROUGH-UNMARSHAL (helper shared with C27): a function that
// promises "dst now holds the decoded message" may report success only through
// the decoder, because proto.Unmarshal is what resets the destination and
// checks required fields. An early `return nil` for an empty payload keeps the
// previous content of a reused destination.
func (c *Ctx) ruleSuccessThroughUnmarshal(rule string, keys []string) {
	R, P := c.R, c.P
	R.Rule(rule, "in each listed function every return is an error value, the result of proto.UnmarshalOptions.Unmarshal itself, or a `return nil` all of whose paths pass through that call", len(keys))
	for _, key := range keys {
		fi := c.need(rule, key)
		if fi == nil {
			continue
		}
		info := fi.Info()
		g := fi.CFG()
		bad := ""
		n := 0
		walk(fi.Decl.Body, func(x ast.Node) bool {
			rs, ok := x.(*ast.ReturnStmt)
			if !ok || len(rs.Results) == 0 {
				return true
			}
			n++
			last := rs.Results[len(rs.Results)-1]
			if !isNilIdent(info, last) {
				return true // an error value or the decoder's own result
			}
			if !g.DominatedByNode(rs, func(m ast.Node) bool {
				return containsCall(info, m, "proto.UnmarshalOptions.Unmarshal", "proto.Unmarshal") != nil
			}) {
				bad = P.Pos(rs)
			}
			return true
		})
		switch {
		case n == 0:
			R.Unk(rule, key, P.Pos(fi.Decl), "no return found")
		case bad != "":
			R.Bad(rule, key, bad, "reports success without having called the decoder: for such a payload (e.g. an empty one) the destination is not reset and required fields are not checked, so a reused destination keeps stale content")
		default:
			R.OK(rule, key, P.Pos(fi.Decl), itoa(n)+" returns; success only through Unmarshal")
		}
	}
}

// R-NULLVALUE-FIRST: google.protobuf.NullValue is written as JSON null whatever
// the enum options say; the enum-number and enum-name forms are reachable only
// for other enums.
func (c *Ctx) ruleNullValueFirst(rule string) {
	R, P := c.R, c.P
	R.Rule(rule, "in protojson.encoder.marshalSingular every WriteInt/WriteString of an enum value is dominated by the failing edge of `fd.Enum().FullName() == genid.NullValue_enum_fullname`", 2)
	fi := c.need(rule, "encoding/protojson.encoder.marshalSingular")
	if fi == nil {
		return
	}
	_ = fi.Info()
	var cc *ast.CaseClause
	walkAll(fi.Decl.Body, func(n ast.Node) bool {
		if cl, ok := n.(*ast.CaseClause); ok && cc == nil {
			for _, e := range cl.List {
				if strings.HasSuffix(exprStr(e), "EnumKind") {
					cc = cl
				}
			}
		}
		return true
	})
	if cc == nil {
		R.Unk(rule, fi.Key, P.Pos(fi.Decl), "case protoreflect.EnumKind not found")
		return
	}
	g := fi.CFG()
	n := 0
	for _, st := range cc.Body {
		walkAll(st, func(x ast.Node) bool {
			call, ok := x.(*ast.CallExpr)
			if !ok {
				return true
			}
			se, ok := call.Fun.(*ast.SelectorExpr)
			if !ok || (se.Sel.Name != "WriteInt" && se.Sel.Name != "WriteString" && se.Sel.Name != "WriteUint") {
				return true
			}
			n++
			ok = g.DominatedByCond(call, func(core ast.Expr, val bool) bool {
				be, isBE := unparen(core).(*ast.BinaryExpr)
				if !isBE {
					return false
				}
				s := exprStr(be)
				if !strings.Contains(s, "NullValue_enum_fullname") || !strings.Contains(s, "FullName()") {
					return false
				}
				return (be.Op == token.EQL && !val) || (be.Op == token.NEQ && val)
			})
			R.Check(ok, rule, fi.Key+" enum "+se.Sel.Name+"#"+itoa(n), P.Pos(call), "only for enums other than NullValue", "an enum value can be written as a number or name without NullValue having been excluded first: with UseEnumNumbers a google.protobuf.NullValue (in Value, Struct, ListValue) is written as 0 instead of null, which reads back as number_value 0")
			return true
		})
	}
	if n < 2 {
		R.Unk(rule, fi.Key+" enum writes", P.Pos(cc), "expected the number and the name form of an enum value")
	}
}

// R-INDENT-JSON-WS: the indent string is written between tokens, so it may
// consist of JSON insignificant whitespace only (RFC 8259: space, tab, LF, CR).
// The constructor has to reject anything else by trimming exactly such a
// cutset; Unicode-aware helpers (strings.TrimSpace, unicode.IsSpace) also
// accept \v, \f, U+0085, U+00A0, which are not JSON whitespace.
func (c *Ctx) ruleIndentJSONWhitespace(rule string) {
	R, P := c.R, c.P
	R.Rule(rule, "json.NewEncoder stores a non-empty indent only after `strings.Trim(indent, K) != \"\"` returned an error, with K a constant made of JSON whitespace bytes (space, tab, LF, CR)", 1)
	fi := c.need(rule, "internal/encoding/json.NewEncoder")
	if fi == nil {
		return
	}
	info := fi.Info()
	g := fi.CFG()
	n := 0
	walkAll(fi.Decl.Body, func(x ast.Node) bool {
		as, ok := x.(*ast.AssignStmt)
		if !ok || len(as.Lhs) != 1 || !strings.HasSuffix(exprStr(as.Lhs[0]), ".indent") {
			return true
		}
		n++
		why := "the indent is stored without a validity test"
		ok = g.DominatedByCond(as, func(core ast.Expr, val bool) bool {
			be, isBE := unparen(core).(*ast.BinaryExpr)
			if !isBE || !((be.Op == token.NEQ && !val) || (be.Op == token.EQL && val)) {
				return false
			}
			x, y := be.X, be.Y
			if constantString(info.Types[x].Value) == "" && info.Types[x].Value != nil {
				x, y = y, x
			}
			if info.Types[y].Value == nil || constantString(info.Types[y].Value) != "" {
				return false
			}
			call, isCall := unparen(x).(*ast.CallExpr)
			if !isCall {
				return false
			}
			k := calleeKey(info, call)
			if k != "strings.Trim" || len(call.Args) != 2 {
				if strings.HasPrefix(k, "strings.Trim") {
					why = "the indent is validated with " + k + ", which also strips characters that are not JSON whitespace (\\v, \\f, U+0085, U+00A0, …): such an indent is accepted and written between tokens, and the output is not JSON"
				}
				return false
			}
			tv := info.Types[call.Args[1]]
			if tv.Value == nil {
				return false
			}
			for _, r := range constantString(tv.Value) {
				if r != ' ' && r != '\t' && r != '\n' && r != '\r' {
					why = "the cutset of the indent test contains a character that is not JSON whitespace"
					return false
				}
			}
			return true
		})
		R.Check(ok, rule, fi.Key+" indent", P.Pos(as), "only space/tab/LF/CR", why)
		return true
	})
	if n == 0 {
		R.Unk(rule, fi.Key, P.Pos(fi.Decl), "assignment to the encoder's indent not found")
	}
}
