package main

import (
	"go/ast"
	"go/token"
	"go/types"
)

func init() {
	register(&Property{
		ID:         "C32",
		Level:      "other",
		Technique:  "CFG pairing (pushStep/popStep, push/pop callbacks) on every path of every traversal body, dominance of recursion by err == nil, must-pass Break normalisation before every return, message/group pairing of kind tests; finite case analysis of amendError over the four abstract error values; exact-exit rule for Any expansion (static)",
		Explain:    "Decides structural necessary conditions of the protorange traversal contract: (1) in every traversal body (function or iteration callback) each pushStep is followed by popStep, and each push(*p) by pop(*p) (when pop is non-nil), on every path before the body exits or pushes again — pushes and pops are balanced and properly nested; (2) every recursive descent (rangeMessage/rangeList/rangeMap) happens between a push and its pop and only under err == nil; (3) every function that runs callbacks normalises Break to nil on every path to its error return (so Break skips exactly one subtree), and the public entry also normalises Terminate; (4) iteration callbacks stop the iteration when err != nil; (5) the decision to descend into a value never distinguishes MessageKind from GroupKind. Further: amendError is evaluated as a decision procedure over {nil, Break, Terminate, other error}² and has to return the higher verdict (Terminate survives an earlier Break); rangeAnyMessage declines expansion for exactly three reasons (not an Any, unresolvable URL, undecodable value); a Break is cleared per element — this last clause fails on the current tree at three constructs and is listed as open finding D30 (the pinned tests assert the behaviour).",
		NotCovered: "that every populated value is visited exactly once and that each step's value equals the parent's value at that step (value-level); Any re-marshal equality.",
		Quick:      all("./reflect/protorange"),
		Thorough:   all("./..."),
		Run: func(c *Ctx) {
			c.ruleRangePairs("R-PUSH-POP")
			c.ruleAmendErrorOrder("R-AMEND-ERROR-ORDER")
			c.ruleAnyExpandExact("R-ANY-EXPAND-EXACT")
			c.ruleBreakScope("R-BREAK-SCOPE")
		},
	})
}

func (c *Ctx) ruleRangePairs(rule string) {
	R, P := c.R, c.P
	R.Rule(rule, "protorange traversal discipline: pushStep/popStep and push/pop paired on all paths of every body; descent only between push and pop under err == nil; Break normalised before every error return; callbacks return err == nil; message and group kinds never distinguished when deciding to descend", 25)
	const pushStep, popStep = "reflect/protorange.pushStep", "reflect/protorange.popStep"
	descend := []string{"reflect/protorange.Options.rangeMessage", "reflect/protorange.Options.rangeList", "reflect/protorange.Options.rangeMap"}
	for _, fi := range P.FuncsIn("reflect/protorange") {
		if fi.Decl.Body == nil {
			continue
		}
		info := fi.Info()
		// callback parameters of type func(protopath.Values) error, in order: push, pop
		var cbs []types.Object
		for _, f := range fi.Decl.Type.Params.List {
			if sig, ok := info.TypeOf(f.Type).(*types.Signature); ok && sig.Params().Len() == 1 && namedTypeName(sig.Params().At(0).Type()) == "reflect/protopath.Values" {
				for _, nm := range f.Names {
					cbs = append(cbs, info.Defs[nm])
				}
			}
		}
		var pushCB, popCB types.Object
		if len(cbs) == 2 {
			pushCB, popCB = cbs[0], cbs[1]
		}
		isCBCall := func(n ast.Node, cb types.Object) bool {
			if cb == nil {
				return false
			}
			found := false
			walk(n, func(x ast.Node) bool {
				if call, ok := x.(*ast.CallExpr); ok {
					if id, ok := call.Fun.(*ast.Ident); ok && objOf(info, id) == cb {
						found = true
					}
				}
				return true
			})
			return found
		}
		errObj := types.Object(nil)
		if rs := fi.Decl.Type.Results; rs != nil {
			for _, f := range rs.List {
				for _, nm := range f.Names {
					if nm.Name == "err" {
						errObj = info.Defs[nm]
					}
				}
			}
		}
		if errObj == nil {
			walk(fi.Decl.Body, func(n ast.Node) bool {
				if vs, ok := n.(*ast.ValueSpec); ok {
					for _, nm := range vs.Names {
						if nm.Name == "err" && errObj == nil {
							errObj = info.Defs[nm]
						}
					}
				}
				return true
			})
		}
		isErrNil := func(core ast.Expr, val bool) bool {
			be, ok := unparen(core).(*ast.BinaryExpr)
			if !ok || objOf(info, be.X) != errObj || errObj == nil || !isNilIdent(info, be.Y) {
				return false
			}
			return (be.Op == token.EQL && val) || (be.Op == token.NEQ && !val)
		}
		for _, br := range bodiesOf(fi) {
			g := newCFG(br.Body, info)
			var pushes []*ast.CallExpr
			walk(br.Body, func(n ast.Node) bool {
				if call, ok := n.(*ast.CallExpr); ok && calleeKey(info, call) == pushStep {
					pushes = append(pushes, call)
				}
				return true
			})
			for i, ps := range pushes {
				sp, ok := g.posOf(ps)
				construct := br.Name + " pushStep #" + itoa(i+1)
				if !ok {
					R.Unk(rule, construct, P.Pos(ps), "cannot locate pushStep in the CFG")
					continue
				}
				found, at := g.Forward(cfgPos{sp.B, sp.I + 1}, Search{
					Target: func(n ast.Node) bool {
						if _, ok := n.(*ast.ReturnStmt); ok {
							return true
						}
						return containsCall(info, n, pushStep) != nil
					},
					Barrier: func(n ast.Node) bool { return containsCall(info, n, popStep) != nil },
				})
				if found {
					R.Bad(rule, construct, P.Pos(ps), "a path from this pushStep reaches "+P.Pos(at)+" without popStep: pushes and pops are unbalanced")
				} else {
					R.OK(rule, construct, P.Pos(ps), "popStep on every path before exit or the next push")
				}
				if pushCB == nil {
					continue
				}
				// push(*p) … pop(*p)
				var pushCall ast.Node
				walk(br.Body, func(n ast.Node) bool {
					if as, ok := n.(*ast.AssignStmt); ok && isCBCall(as, pushCB) && as.Pos() > ps.Pos() && pushCall == nil {
						pushCall = as
					}
					return true
				})
				if pushCall == nil {
					R.Bad(rule, construct+" push callback", P.Pos(ps), "a step is pushed but the push callback is never invoked for it")
					continue
				}
				pp, _ := g.posOf(pushCall)
				found, at = g.Forward(cfgPos{pp.B, pp.I + 1}, Search{
					Target: func(n ast.Node) bool {
						if _, ok := n.(*ast.ReturnStmt); ok {
							return true
						}
						return containsCall(info, n, popStep) != nil
					},
					Barrier: func(n ast.Node) bool { return isCBCall(n, popCB) },
					EdgeBarrier: func(b *cfgBlock, succ int) bool {
						return edgePasses(b, succ, func(core ast.Expr, val bool) bool {
							be, ok := unparen(core).(*ast.BinaryExpr)
							return ok && objOf(info, be.X) == popCB && isNilIdent(info, be.Y) && ((be.Op == token.NEQ && !val) || (be.Op == token.EQL && val))
						})
					},
				})
				R.Check(!found, rule, construct+" push/pop callbacks", P.Pos(pushCall), "pop(*p) (when non-nil) on every path before popStep", "after push(*p) a path reaches "+P.Pos(at)+" without calling pop(*p): a pushed step is never popped for the caller")
				// descents between push and pop are under err == nil
				for _, dc := range allCalls(info, br.Body, descend...) {
					if !(dc.Pos() > ps.Pos()) {
						continue
					}
					// only descents before the matching popStep (same bracket): the nearest preceding pushStep is ps
					nearest := ps
					for _, other := range pushes {
						if other.Pos() < dc.Pos() && other.Pos() > nearest.Pos() {
							nearest = other
						}
					}
					if nearest != ps {
						continue
					}
					ok := g.DominatedByCond(dc, isErrNil)
					R.Check(ok, rule, construct+" descent "+calleeKey(info, dc), P.Pos(dc), "under err == nil", "the traversal descends although push returned an error (Break/Terminate would be ignored)")
				}
			}
			// callbacks: `return err == nil`
			if br.Lit != nil && len(pushes) > 0 {
				okRet := true
				walk(br.Body, func(n ast.Node) bool {
					if rs, ok := n.(*ast.ReturnStmt); ok {
						if len(rs.Results) != 1 || !isErrNil(rs.Results[0], true) {
							okRet = false
						}
					}
					return true
				})
				R.Check(okRet, rule, br.Name+" continue-iff-no-error", P.Pos(br.Lit), "returns err == nil", "the iteration callback does not stop exactly when err != nil: Break/Terminate would not stop the siblings")
			}
		}
		// Break normalisation: functions that invoke callbacks (directly or via descent) and return err
		invokes := pushCB != nil && errObj != nil
		if invokes {
			g := fi.CFG()
			k := 0
			walk(fi.Decl.Body, func(n ast.Node) bool {
				rs, ok := n.(*ast.ReturnStmt)
				if !ok || len(rs.Results) == 0 {
					return true
				}
				last := unparen(rs.Results[len(rs.Results)-1])
				if objOf(info, last) != errObj {
					return true
				}
				// only returns reachable after some callback/descent
				after := false
				for _, br := range bodiesOf(fi) {
					walk(br.Body, func(x ast.Node) bool {
						if call, ok := x.(*ast.CallExpr); ok && call.Pos() < rs.Pos() {
							if id, ok := call.Fun.(*ast.Ident); ok && (objOf(info, id) == pushCB || objOf(info, id) == popCB) {
								after = true
							}
						}
						return true
					})
				}
				if !after {
					return true
				}
				k++
				norm := g.DominatedByNode(rs, func(x ast.Node) bool {
					// the condition node `err == Break` (possibly || err == Terminate) of an if whose body sets err = nil
					e, ok := x.(ast.Expr)
					if !ok {
						return false
					}
					has := false
					walk(e, func(y ast.Node) bool {
						if be, ok := y.(*ast.BinaryExpr); ok && be.Op == token.EQL && objOf(info, be.X) == errObj {
							if o := objOf(info, be.Y); o != nil && o.Name() == "Break" {
								has = true
							}
						}
						return true
					})
					if !has {
						return false
					}
					// find the IfStmt with this cond and check its body assigns nil to err
					okBody := false
					walk(fi.Decl.Body, func(y ast.Node) bool {
						if is, ok := y.(*ast.IfStmt); ok && is.Cond == e {
							for _, s := range is.Body.List {
								if as, ok := s.(*ast.AssignStmt); ok && len(as.Lhs) == 1 && objOf(info, as.Lhs[0]) == errObj && isNilIdent(info, as.Rhs[0]) {
									okBody = true
								}
							}
						}
						return true
					})
					return okBody
				})
				if !norm {
					// alternative discipline: every callback call before this return sits in an
					// element body that clears Break itself, after the call (per-element reset)
					pm := parentMap(fi.Decl.Body)
					all, any := true, false
					for _, br := range bodiesOf(fi) {
						walk(br.Body, func(x ast.Node) bool {
							call, ok := x.(*ast.CallExpr)
							if !ok || call.Pos() >= rs.Pos() {
								return true
							}
							id, ok := call.Fun.(*ast.Ident)
							if !ok || (objOf(info, id) != pushCB && objOf(info, id) != popCB) {
								return true
							}
							any = true
							cleared := false
							for p := pm[ast.Node(call)]; p != nil && !cleared; p = pm[p] {
								var list []ast.Stmt
								switch b := p.(type) {
								case *ast.ForStmt:
									list = b.Body.List
								case *ast.FuncLit:
									list = b.Body.List
								default:
									continue
								}
								for _, st := range list {
									is, ok := st.(*ast.IfStmt)
									if !ok || st.Pos() < call.Pos() || len(is.Body.List) != 1 {
										continue
									}
									if be, ok := unparen(is.Cond).(*ast.BinaryExpr); ok && be.Op == token.EQL && objOf(info, be.X) == errObj {
										if o := objOf(info, be.Y); o != nil && o.Name() == "Break" {
											if as, ok := is.Body.List[0].(*ast.AssignStmt); ok && len(as.Lhs) == 1 && objOf(info, as.Lhs[0]) == errObj && isNilIdent(info, as.Rhs[0]) {
												cleared = true
											}
										}
									}
								}
								break
							}
							if !cleared {
								all = false
							}
							return true
						})
					}
					norm = any && all
				}
				R.Check(norm, rule, fi.Key+" Break normalised before return #"+itoa(k), P.Pos(rs), "`if err == Break { err = nil }` on every path to this return, or per element after each callback", "the error is returned without converting Break to nil: Break would propagate to the caller's loop and skip the siblings of this subtree")
				return true
			})
		}
		// message/group pairing in kind tests
		walkAll(fi.Decl.Body, func(n ast.Node) bool {
			check := func(exprs []ast.Expr, at ast.Node) {
				hasMsg, hasGrp := false, false
				for _, e := range exprs {
					walk(e, func(y ast.Node) bool {
						if ye, ok := y.(ast.Expr); ok {
							if k, ok := kindOfExpr(info, ye); ok {
								if k == "MessageKind" {
									hasMsg = true
								}
								if k == "GroupKind" {
									hasGrp = true
								}
							}
						}
						return true
					})
				}
				if hasMsg != hasGrp {
					R.Bad(rule, fi.Key+" kind test", P.Pos(at), "a traversal decision tests MessageKind without GroupKind (or vice versa): group-encoded message fields would be treated differently from ordinary message fields")
				}
			}
			switch v := n.(type) {
			case *ast.CaseClause:
				check(v.List, v)
			case *ast.IfStmt:
				check([]ast.Expr{v.Cond}, v)
			case *ast.ReturnStmt:
				check(v.Results, v)
			}
			return true
		})
	}
}
