package main

import (
	"go/ast"
	"go/constant"
	"go/types"
	"sort"
	"strings"
)

// E8 helpers: writer/reader tables expressed as switch statements.

type caseRow struct {
	Labels  []string // constant object names (or literal values) of the case expressions; nil for default
	Default bool
	Clause  *ast.CaseClause
}

// labelName: the constant's declared name when the label is a named constant,
// else its value (so tables are compared by meaning, not by text).
func labelName(info *types.Info, e ast.Expr) (string, bool) {
	e = unparen(e)
	if o := objOf(info, e); o != nil {
		if c, ok := o.(*types.Const); ok {
			return c.Name(), true
		}
	}
	if tv, ok := info.Types[e]; ok && tv.Value != nil {
		if tv.Value.Kind() == constant.String {
			return constant.StringVal(tv.Value), true
		}
		return tv.Value.ExactString(), true
	}
	return exprStr(e), false
}

func labelValue(info *types.Info, e ast.Expr) (constant.Value, bool) {
	if tv, ok := info.Types[unparen(e)]; ok && tv.Value != nil {
		return tv.Value, true
	}
	return nil, false
}

func switchRowsOf(info *types.Info, sw *ast.SwitchStmt) []caseRow {
	var rows []caseRow
	for _, s := range sw.Body.List {
		cc := s.(*ast.CaseClause)
		r := caseRow{Clause: cc, Default: cc.List == nil}
		for _, e := range cc.List {
			n, _ := labelName(info, e)
			r.Labels = append(r.Labels, n)
		}
		rows = append(rows, r)
	}
	return rows
}

// findSwitches returns the switch statements in body whose tag satisfies pick
// (tag may be nil for tagless switches).
func findSwitches(body ast.Node, pick func(sw *ast.SwitchStmt) bool) []*ast.SwitchStmt {
	var out []*ast.SwitchStmt
	walk(body, func(n ast.Node) bool {
		if sw, ok := n.(*ast.SwitchStmt); ok && pick(sw) {
			out = append(out, sw)
		}
		return true
	})
	return out
}

// returnedSelName: for a clause whose last statement is `return X.sel` or
// `return nil`, the selector name ("" for nil); ok=false otherwise.
func returnedSelName(cc *ast.CaseClause) (string, bool) {
	if len(cc.Body) == 0 {
		return "", false
	}
	rs, ok := cc.Body[len(cc.Body)-1].(*ast.ReturnStmt)
	if !ok || len(rs.Results) != 1 {
		return "", false
	}
	switch x := unparen(rs.Results[0]).(type) {
	case *ast.SelectorExpr:
		return x.Sel.Name, true
	case *ast.Ident:
		if x.Name == "nil" {
			return "", true
		}
		return x.Name, true
	}
	return "", false
}

// R-WKT-TABLE: the JSON well-known-type dispatch tables of the encoder and the
// decoder cover the same message names and pair marshalX with unmarshalX.
func (c *Ctx) ruleWKTTable(rule string) {
	R, P := c.R, c.P
	R.Rule(rule, "wellKnownTypeMarshaler and wellKnownTypeUnmarshaler dispatch on the same set of google.protobuf message names, and the functions installed for one name are the marshalX/unmarshalX pair of the same X (exception table: Empty)", 16)
	exceptions := map[string]string{
		"Empty_message_name": "Empty has no special JSON form (marshaler nil: regular `{}` object) but the decoder installs unmarshalEmpty to accept exactly an empty object; documented in the source with the spec reference",
	}
	table := func(key string) (map[string]string, *FuncInfo) {
		fi := c.need(rule, key)
		if fi == nil {
			return nil, nil
		}
		sws := findSwitches(fi.Decl.Body, func(sw *ast.SwitchStmt) bool { return sw.Tag != nil })
		if len(sws) != 1 {
			R.Unk(rule, key, P.Pos(fi.Decl), "expected exactly one dispatch switch")
			return nil, nil
		}
		m := map[string]string{}
		for _, r := range switchRowsOf(fi.Info(), sws[0]) {
			if r.Default {
				continue
			}
			sel, ok := returnedSelName(r.Clause)
			if !ok {
				R.Unk(rule, key+" "+strings.Join(r.Labels, ","), P.Pos(r.Clause), "case does not end in `return <func>`: unrecognised table row")
				continue
			}
			for _, l := range r.Labels {
				m[l] = sel
			}
		}
		return m, fi
	}
	mt, mfi := table("encoding/protojson.wellKnownTypeMarshaler")
	ut, ufi := table("encoding/protojson.wellKnownTypeUnmarshaler")
	if mfi == nil || ufi == nil {
		return
	}
	names := map[string]bool{}
	for k := range mt {
		names[k] = true
	}
	for k := range ut {
		names[k] = true
	}
	for _, n := range sortedKeys(names) {
		construct := "wkt row " + n
		ms, inM := mt[n]
		us, inU := ut[n]
		if why, ok := exceptions[n]; ok && inM && inU && ms == "" && us == "unmarshalEmpty" {
			R.Exempt(rule, construct, P.Pos(mfi.Decl), why)
			continue
		}
		switch {
		case !inM:
			R.Bad(rule, construct, P.Pos(mfi.Decl), "the decoder has a special JSON form for this type but the encoder table has no row: output would not be parseable back")
		case !inU:
			R.Bad(rule, construct, P.Pos(ufi.Decl), "the encoder emits a special JSON form for this type but the decoder table has no row: output would not be parseable back")
		case strings.TrimPrefix(ms, "marshal") != strings.TrimPrefix(us, "unmarshal") || !strings.HasPrefix(ms, "marshal") || !strings.HasPrefix(us, "unmarshal"):
			R.Bad(rule, construct, P.Pos(ufi.Decl), "encoder installs "+ms+" but decoder installs "+us+": not the two directions of one JSON form")
		default:
			R.OK(rule, construct, P.Pos(mfi.Decl), ms+" ↔ "+us)
		}
	}
}

func sortedSet(m map[string]bool) []string {
	var s []string
	for k := range m {
		s = append(s, k)
	}
	sort.Strings(s)
	return s
}
