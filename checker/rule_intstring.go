package main

import (
	"go/ast"
	"go/token"
	"go/types"
)

// R-INTSTRING-SHIFT. json.normalizeToIntString turns the parts of a JSON
// number (integer digits I, fraction digits F with trailing zeros removed,
// exponent E) into the decimal string of an integer, or rejects. The rule
// checks its arithmetic as linear forms over I = len(intp), F = len(frac),
// E = exp and LZ = number of leading zeros of frac:
//
//	E ≥ 0: reject iff F > E; digits = intp ++ frac ++ (E - F) zeros;
//	       a digit-count rejection `G > maxDigits` is sound only if G never
//	       exceeds the number of significant digits: G ≤ I + E when I > 0, and
//	       G ≤ E - LZ when I = 0 (intp is empty when the integer part is 0, so
//	       the string then starts with the fraction's leading zeros), with
//	       maxDigits ≥ 20 (digits of MaxUint64);
//	E < 0: reject iff F > 0 or I + E < 0 or one of intp[I+E:] is not '0';
//	       digits = intp[:I+E].
func (c *Ctx) ruleIntStringShift(rule string) {
	R, P := c.R, c.P
	R.Rule(rule, "normalizeToIntString as linear forms over I=len(intp), F=len(frac), E=exp, LZ=leading zeros of frac: non-integers rejected by F > E (E ≥ 0) and F > 0 (E < 0); padding E - F zeros; the digit-count rejection never exceeds the significant digits (≤ I+E for I > 0, ≤ E-LZ for I = 0) and its bound is ≥ 20; for E < 0 the cut is at I+E, rejected when negative, and every digit cut off is tested to be '0'", 8)
	fi := c.need(rule, "internal/encoding/json.normalizeToIntString")
	if fi == nil {
		return
	}
	info := fi.Info()
	if len(fi.Decl.Type.Params.List) != 1 || len(fi.Decl.Type.Params.List[0].Names) != 1 {
		R.Unk(rule, fi.Key, P.Pos(fi.Decl), "unexpected parameters")
		return
	}
	nObj := info.Defs[fi.Decl.Type.Params.List[0].Names[0]]
	// classify a len(n.X) expression
	partOf := func(e ast.Expr) string {
		call, ok := unparen(e).(*ast.CallExpr)
		if !ok || calleeKey(info, call) != "builtin.len" {
			return ""
		}
		sel, ok := unparen(call.Args[0]).(*ast.SelectorExpr)
		if !ok {
			return ""
		}
		if id, ok := sel.X.(*ast.Ident); !ok || info.Uses[id] != nObj {
			return ""
		}
		switch sel.Sel.Name {
		case "intp":
			return "I"
		case "frac":
			return "F"
		}
		return ""
	}
	env := map[types.Object]linForm{}
	var eval func(e ast.Expr) (linForm, bool)
	eval = func(e ast.Expr) (linForm, bool) {
		e = unparen(e)
		if v, ok := constInt(info, e); ok {
			return linConst(v), true
		}
		if p := partOf(e); p != "" {
			return linTerm(p), true
		}
		switch x := e.(type) {
		case *ast.Ident:
			if f, ok := env[info.Uses[x]]; ok {
				return f, true
			}
		case *ast.BinaryExpr:
			a, ok1 := eval(x.X)
			b, ok2 := eval(x.Y)
			if ok1 && ok2 {
				switch x.Op {
				case token.ADD:
					return a.add(b, 1), true
				case token.SUB:
					return a.add(b, -1), true
				}
			}
		case *ast.CallExpr:
			// len(bytes.TrimLeft(n.frac, "0")) = F - LZ
			if calleeKey(info, x) == "builtin.len" && len(x.Args) == 1 {
				if in, ok := unparen(x.Args[0]).(*ast.CallExpr); ok && calleeKey(info, in) == "bytes.TrimLeft" && len(in.Args) == 2 {
					if sel, ok := unparen(in.Args[0]).(*ast.SelectorExpr); ok && sel.Sel.Name == "frac" {
						if tv, ok := info.Types[in.Args[1]]; ok && tv.Value != nil && constantString(tv.Value) == "0" {
							return linTerm("F").add(linTerm("LZ"), -1), true
						}
					}
				}
			}
		}
		return linForm{}, false
	}
	// top-level definitions
	var expObj types.Object
	var branch *ast.IfStmt
	for _, st := range fi.Decl.Body.List {
		switch s := st.(type) {
		case *ast.AssignStmt:
			if s.Tok == token.DEFINE && len(s.Lhs) == 1 && len(s.Rhs) == 1 {
				if f, ok := eval(s.Rhs[0]); ok {
					env[info.Defs[s.Lhs[0].(*ast.Ident)]] = f
				}
			}
		case *ast.DeclStmt:
			if gd, ok := s.Decl.(*ast.GenDecl); ok {
				for _, sp := range gd.Specs {
					if vs, ok := sp.(*ast.ValueSpec); ok && len(vs.Names) == 1 && vs.Names[0].Name == "exp" {
						expObj = info.Defs[vs.Names[0]]
						env[expObj] = linTerm("E")
					}
				}
			}
		case *ast.IfStmt:
			if be, ok := unparen(s.Cond).(*ast.BinaryExpr); ok && be.Op == token.GEQ && expObj != nil && objOf(info, be.X) == expObj {
				if z, ok := constInt(info, be.Y); ok && z == 0 && s.Else != nil {
					branch = s
				}
			}
		}
	}
	if expObj == nil || branch == nil {
		R.Unk(rule, fi.Key, P.Pos(fi.Decl), "`var exp int` and `if exp >= 0 { … } else { … }` not found")
		return
	}
	rejects := func(b *ast.BlockStmt) bool {
		for _, st := range b.List {
			if rs, ok := st.(*ast.ReturnStmt); ok && len(rs.Results) == 2 {
				if v, ok := constBool(info, rs.Results[1]); ok && !v {
					return true
				}
			}
		}
		return false
	}
	I, F, E, LZ := linTerm("I"), linTerm("F"), linTerm("E"), linTerm("LZ")
	_ = LZ
	// nonPos: d ≤ 0 for all non-negative values of its terms
	nonPos := func(d linForm) bool {
		if d.c > 0 {
			return false
		}
		for _, k := range d.t {
			if k > 0 {
				return false
			}
		}
		return true
	}
	con := func(s string) string { return fi.Key + " " + s }
	// ---- E ≥ 0
	{
		nonint, padding, guard, build := false, false, false, 0
		var digitsObj types.Object // variable holding the counted digits, with a conditional correction
		digitsBase := linForm{}
		digitsZero := linForm{} // value when I == 0
		hasZeroCase := false
		for _, st := range branch.Body.List {
			switch s := st.(type) {
			case *ast.DeclStmt:
				// const maxDigits
			case *ast.AssignStmt:
				if s.Tok == token.DEFINE && len(s.Lhs) == 1 && len(s.Rhs) == 1 {
					if f, ok := eval(s.Rhs[0]); ok {
						o := info.Defs[s.Lhs[0].(*ast.Ident)]
						env[o] = f
						digitsObj, digitsBase, digitsZero = o, f, f
					}
					continue
				}
				// num = n.intp[...]; num = append(num, n.frac...)
				if len(s.Rhs) == 1 {
					r := exprStr(s.Rhs[0])
					if containsStr(r, ".intp") || containsStr(r, ".frac") {
						build++
					}
				}
			case *ast.IfStmt:
				be, ok := unparen(s.Cond).(*ast.BinaryExpr)
				if !ok {
					continue
				}
				// if intpSize == 0 { digits -= Z }
				if be.Op == token.EQL && digitsObj != nil && !rejects(s.Body) {
					if a, ok := eval(be.X); ok {
						if z, ok := constInt(info, be.Y); ok && z == 0 && a.add(I, -1).isConst() && a.add(I, -1).c == 0 && len(s.Body.List) == 1 {
							if as, ok := s.Body.List[0].(*ast.AssignStmt); ok && as.Tok == token.SUB_ASSIGN && objOf(info, as.Lhs[0]) == digitsObj {
								if zf, ok := eval(as.Rhs[0]); ok {
									digitsZero = digitsBase.add(zf, -1)
									hasZeroCase = true
								}
							}
						}
					}
					continue
				}
				if (be.Op != token.GTR && be.Op != token.LSS) || !rejects(s.Body) {
					continue
				}
				lhs, rhs := be.X, be.Y
				if be.Op == token.LSS { // a < b  ≡  b > a
					lhs, rhs = rhs, lhs
				}
				a, ok1 := eval(lhs)
				b, ok2 := eval(rhs)
				if !ok1 || !ok2 {
					R.Unk(rule, con("E>=0 rejection"), P.Pos(s), "rejecting comparison not linear in I, F, E: "+exprStr(s.Cond))
					continue
				}
				if b.isConst() && b.c != 0 {
					// digit-count guard  G > maxDigits
					guard = true
					gPos, gZero := a, a
					if id, ok := unparen(lhs).(*ast.Ident); ok && info.Uses[id] == digitsObj && hasZeroCase {
						gZero = digitsZero
					}
					d1 := gPos.add(I, -1).add(E, -1)                     // G - (I+E), case I > 0
					d0 := substTerm(gZero, "I", 0).add(E, -1).add(LZ, 1) // G - (E - LZ), case I = 0
					R.Check(nonPos(d1), rule, con("E>=0 digit count, I>0"), P.Pos(s), "counted digits "+gPos.String()+" ≤ I + E", "the digit-count rejection counts "+gPos.String()+" digits but the constructed integer has I + E: it exceeds it by "+d1.String()+", so integral literals whose value fits the type are rejected (e.g. a long fraction absorbed by the exponent)")
					R.Check(nonPos(d0), rule, con("E>=0 digit count, I=0"), P.Pos(s), "counted digits "+substTerm(gZero, "I", 0).String()+" ≤ E - LZ", "when the integer part is 0 (intp empty) the rejection counts "+substTerm(gZero, "I", 0).String()+" digits although only E - LZ are significant (the fraction's leading zeros are not): values that fit the type are rejected, e.g. 0.01e21 = 1e19 for uint64")
					R.Check(b.c >= 20, rule, con("E>=0 digit bound"), P.Pos(s), "bound "+itoa64(b.c)+" ≥ 20", "the digit bound "+itoa64(b.c)+" is below 20, the number of digits of MaxUint64")
				} else {
					// F > E
					d := a.add(b, -1).add(F, -1).add(E, 1)
					nonint = d.isConst() && d.c == 0
					R.Check(nonint, rule, con("E>=0 non-integer"), P.Pos(s), "rejected iff F > E", "the non-integer test is "+exprStr(s.Cond)+" instead of F > E (more fraction digits than the exponent shifts)")
				}
			case *ast.ForStmt:
				if be, ok := unparen(s.Cond).(*ast.BinaryExpr); ok && be.Op == token.LSS {
					if as, ok := s.Init.(*ast.AssignStmt); ok && len(as.Rhs) == 1 {
						z, okz := constInt(info, as.Rhs[0])
						n, okn := eval(be.Y)
						if okz && z == 0 && okn {
							d := n.add(E, -1).add(F, 1)
							padding = d.isConst() && d.c == 0
							R.Check(padding, rule, con("E>=0 padding"), P.Pos(s), "E - F zeros appended", "the number of zeros appended is "+n.String()+" instead of E - F: the integer is scaled by the wrong power of ten")
						}
					}
				}
			}
		}
		if !nonint {
			R.Check(false, rule, con("E>=0 non-integer test"), P.Pos(branch), "", "no rejection `F > E` found: numbers with more fraction digits than the exponent shifts are not integers")
		}
		if !padding {
			R.Check(false, rule, con("E>=0 padding loop"), P.Pos(branch), "", "zero padding loop not found")
		}
		_ = guard
		R.Check(build >= 2, rule, con("E>=0 digits"), P.Pos(branch), "digits = intp ++ frac ++ zeros", "the digit string is not built from both the integer and the fraction digits")
	}
	// ---- E < 0
	eb, ok := branch.Else.(*ast.BlockStmt)
	if !ok {
		R.Unk(rule, con("E<0"), P.Pos(branch), "else branch is not a block")
		return
	}
	var indexObj types.Object
	fracRej, idxRej, scan, trim := false, false, false, false
	for _, st := range eb.List {
		switch s := st.(type) {
		case *ast.AssignStmt:
			if s.Tok == token.DEFINE && len(s.Lhs) == 1 && len(s.Rhs) == 1 {
				if f, ok := eval(s.Rhs[0]); ok {
					o := info.Defs[s.Lhs[0].(*ast.Ident)]
					env[o] = f
					if d := f.add(I, -1).add(E, -1); d.isConst() && d.c == 0 {
						indexObj = o
					}
				}
				continue
			}
			if len(s.Rhs) == 1 {
				if se, ok := unparen(s.Rhs[0]).(*ast.SliceExpr); ok && se.Low == nil && se.High != nil {
					if h, ok := eval(se.High); ok {
						d := h.add(I, -1).add(E, -1)
						trim = d.isConst() && d.c == 0
					}
				}
			}
		case *ast.IfStmt:
			be, ok := unparen(s.Cond).(*ast.BinaryExpr)
			if !ok || !rejects(s.Body) {
				continue
			}
			a, ok1 := eval(be.X)
			b, ok2 := eval(be.Y)
			if !ok1 || !ok2 {
				continue
			}
			op := be.Op
			if bc, ac := b.isConst(), a.isConst(); ac && !bc { // constant on the left: flip
				a, b, op = b, a, flipOp(op)
			}
			d := a.add(b, -1)
			if op == token.GTR && d.add(F, -1).isConst() && d.add(F, -1).c == 0 {
				fracRej = true
			}
			if op == token.LSS && d.add(I, -1).add(E, -1).isConst() && d.add(I, -1).add(E, -1).c == 0 {
				idxRej = true
			}
		case *ast.ForStmt:
			// for i := index; i < intpSize; i++ { if num[i] != '0' { reject } }
			as, ok1 := s.Init.(*ast.AssignStmt)
			be, ok2 := unparen(s.Cond).(*ast.BinaryExpr)
			if ok1 && ok2 && be.Op == token.LSS && len(as.Rhs) == 1 {
				lo, okl := eval(as.Rhs[0])
				hi, okh := eval(be.Y)
				if okl && okh {
					dl := lo.add(I, -1).add(E, -1)
					dh := hi.add(I, -1)
					inner := false
					walk(s.Body, func(n ast.Node) bool {
						if is, ok := n.(*ast.IfStmt); ok && rejects(is.Body) {
							if c, ok := unparen(is.Cond).(*ast.BinaryExpr); ok && c.Op == token.NEQ {
								if v, ok := constInt(info, c.Y); ok && v == '0' {
									inner = true
								}
							}
						}
						return true
					})
					scan = dl.isConst() && dl.c == 0 && dh.isConst() && dh.c == 0 && inner
				}
			}
		}
	}
	_ = indexObj
	R.Check(fracRej, rule, con("E<0 fraction"), P.Pos(eb), "rejected iff F > 0", "with a negative exponent a non-empty fraction is not rejected by `F > 0`")
	R.Check(idxRej, rule, con("E<0 cut position"), P.Pos(eb), "rejected iff I + E < 0", "a cut position I + E below zero is not rejected")
	R.Check(scan, rule, con("E<0 cut digits"), P.Pos(eb), "every digit in intp[I+E:I] tested to be '0'", "the digits cut off by the negative exponent (intp[I+E:I]) are not all tested to be '0': non-integers would be accepted, or integers rejected")
	R.Check(trim, rule, con("E<0 result"), P.Pos(eb), "digits = intp[:I+E]", "the result is not the integer digits cut at I + E")
}

func containsStr(s, sub string) bool {
	return len(sub) <= len(s) && (func() bool {
		for i := 0; i+len(sub) <= len(s); i++ {
			if s[i:i+len(sub)] == sub {
				return true
			}
		}
		return false
	})()
}

// substTerm replaces a term by a constant.
func substTerm(a linForm, term string, v int64) linForm {
	r := linForm{c: a.c, t: map[string]int64{}}
	for s, k := range a.t {
		if s == term {
			r.c += k * v
		} else {
			r.t[s] = k
		}
	}
	return r
}
