package main

import (
	"go/ast"
	"go/token"
	"strings"
)

// R-VALIDATE-WIRETYPE: the fast-path validator decides whether a required
// field is present from its validationType and the record's wire type. The
// validationType of a scalar is assigned from the wire type of its Kind
// (`switch wireTypes[fd.Kind()] { case X: vi.typ = validationTypeY }`); the
// presence test maps validationTypeY back to a wire type
// (`case validationTypeY: ok = wtyp == X'`). The two tables must compose to
// the identity (X' == X), and the non-scalar types have their wire-format
// types (message, bytes, string → BytesType; group → StartGroupType).
// Otherwise a record with the wrong wire type — which Unmarshal stores as an
// unknown field — marks a required field as present: the validator reports a
// partial message as initialized.
func (c *Ctx) ruleValidateWireType(rule string) {
	R, P := c.R, c.P
	R.Rule(rule, "validator: for every wire type X with `case X: vi.typ = validationTypeY` in the validationType assignment, the required-field presence test accepts validationTypeY exactly on `wtyp == X`; Message/Bytes/UTF8String are accepted on BytesType and Group on StartGroupType; no presence test accepts two wire types", 7)
	assign := map[string]string{} // validationTypeY -> X (from assignment switches)
	for _, fi := range P.FuncsIn("internal/impl") {
		if fi.Decl.Body == nil || !strings.Contains(fi.Pkg.Fset.Position(fi.Decl.Pos()).Filename, "validate.go") {
			continue
		}
		info := fi.Info()
		walk(fi.Decl.Body, func(n ast.Node) bool {
			sw, ok := n.(*ast.SwitchStmt)
			if !ok || sw.Tag == nil {
				return true
			}
			ix, ok := unparen(sw.Tag).(*ast.IndexExpr)
			if !ok || exprStr(ix.X) != "wireTypes" {
				return true
			}
			for _, s := range sw.Body.List {
				cc := s.(*ast.CaseClause)
				for _, l := range cc.List {
					x, _ := labelName(info, l)
					for _, st := range cc.Body {
						if as, ok := st.(*ast.AssignStmt); ok && len(as.Lhs) == 1 && len(as.Rhs) == 1 && strings.HasSuffix(exprStr(as.Lhs[0]), ".typ") {
							y, _ := labelName(info, as.Rhs[0])
							y = strings.TrimPrefix(y, "validationTypeRepeated")
							y = strings.TrimPrefix(y, "validationType")
							if old, dup := assign[y]; dup && old != x {
								R.Bad(rule, "assignment validationType"+y, P.Pos(as), "validationType"+y+" is assigned for two different wire types ("+old+", "+x+")")
							}
							assign[y] = x
						}
					}
				}
			}
			return true
		})
	}
	if len(assign) == 0 {
		R.Unk(rule, "validationType assignment", "", "no `switch wireTypes[...]` assigning vi.typ found in validate.go")
		return
	}
	fixed := map[string]string{"Message": "BytesType", "Bytes": "BytesType", "UTF8String": "BytesType", "Group": "StartGroupType"}
	fv := c.need(rule, "internal/impl.(*MessageInfo).validate")
	if fv == nil {
		return
	}
	info := fv.Info()
	var presence *ast.SwitchStmt
	walk(fv.Decl.Body, func(n ast.Node) bool {
		sw, ok := n.(*ast.SwitchStmt)
		if !ok || sw.Tag == nil || !strings.HasSuffix(exprStr(sw.Tag), ".typ") || presence != nil {
			return true
		}
		// clause bodies of the form ok = wtyp == X
		for _, s := range sw.Body.List {
			for _, st := range s.(*ast.CaseClause).Body {
				if as, ok := st.(*ast.AssignStmt); ok && len(as.Rhs) == 1 {
					if be, ok := unparen(as.Rhs[0]).(*ast.BinaryExpr); ok && be.Op == token.EQL && (strings.Contains(exprStr(be.X), "wtyp") || strings.Contains(exprStr(be.Y), "wtyp")) {
						presence = sw
					}
				}
			}
		}
		return true
	})
	if presence == nil {
		R.Unk(rule, fv.Key+" presence test", P.Pos(fv.Decl), "the switch `case validationTypeY: ok = wtyp == X` was not found")
		return
	}
	seen := map[string]bool{}
	for _, s := range presence.Body.List {
		cc := s.(*ast.CaseClause)
		var accepted []string
		for _, st := range cc.Body {
			walk(st, func(n ast.Node) bool {
				if be, ok := n.(*ast.BinaryExpr); ok && be.Op == token.EQL && (strings.Contains(exprStr(be.X), "wtyp") || strings.Contains(exprStr(be.Y), "wtyp")) {
					c := be.Y
					if strings.Contains(exprStr(be.Y), "wtyp") {
						c = be.X
					}
					x, _ := labelName(info, c)
					accepted = append(accepted, x)
				}
				return true
			})
		}
		for _, l := range cc.List {
			y, _ := labelName(info, l)
			y = strings.TrimPrefix(y, "validationType")
			seen[y] = true
			want := assign[y]
			if fx, ok := fixed[y]; ok {
				if want != "" && want != fx {
					R.Bad(rule, "presence validationType"+y, P.Pos(cc), "assigned for "+want+" but its wire-format type is "+fx)
					continue
				}
				want = fx
			}
			construct := "presence validationType" + y
			switch {
			case want == "":
				R.Unk(rule, construct, P.Pos(cc), "no wire type known for this validation type")
			case len(accepted) != 1 || accepted[0] != want:
				R.Bad(rule, construct, P.Pos(cc), "a required field of validationType"+y+" (assigned for wire type "+want+") is counted as present on {"+strings.Join(accepted, ", ")+"}: a record with another wire type, which Unmarshal keeps as an unknown field, satisfies the required-field check, so the validator reports a partial message as initialized")
			default:
				R.OK(rule, construct, P.Pos(cc), "present only on wtyp == "+want)
			}
		}
	}
	for y := range assign {
		if !seen[y] && (y == "Varint" || y == "Fixed32" || y == "Fixed64" || y == "Bytes") {
			R.Bad(rule, "presence validationType"+y, P.Pos(presence), "no presence test for validationType"+y+": a required field of this type is never counted as present (every message with it is reported uninitialized)")
		}
	}
}
