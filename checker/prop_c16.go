package main

import (
	"go/ast"
	"go/token"
	"go/types"
	"strings"
)

func init() {
	register(&Property{
		ID:         "C16",
		Level:      "other",
		Technique:  "who-may-set rule on the MarshalUseCachedSize flag, CFG dominance of cache reads by the flag test and of the flag by a fresh Size pass, must-store on every exit of the size pass, option pass-through to nested size calls (static)",
		Explain:    "Decides structural necessary conditions of `the size cache never makes Marshal output stale`: (1) the MarshalUseCachedSize flag is introduced only in proto.MarshalOptions.marshal, dominated by a methods.Size call on the same message with the same flags, or copied from the caller's explicit UseCachedSize option; (2) every read of a message's size-cache word is dominated by the true edge of opts.UseCachedSize(); (3) every exit of sizePointerSlow with a valid cache offset stores the freshly computed size (or 0 when it does not fit), and the cache word is written nowhere else; (4) sizePointerSlow forwards its options unchanged to every nested size function, so a top-level pass without the flag refreshes every nested cache that Marshal will read. The UseCachedSize option itself is bridged faithfully: the public option sets exactly its flag bit, the internal accessor tests exactly that bit, and Options() copies it from the accessor (R-OPTS-BRIDGE) — a cache may only be trusted where the caller asked for it.",
		NotCovered: "a caller asserting UseCachedSize itself after mutating the message (documented as the caller's responsibility); user-provided protoiface.Methods; that each field coder's size function descends into every nested message that its marshal function later consults (covered by the size/append agreement rules of C04 when claimed).",
		Quick:      all("./proto", "./internal/impl"),
		Thorough:   allAndLegacy("./proto", "./internal/impl"),
		Run: func(c *Ctx) {
			c.ruleOptsBridge("R-OPTS-BRIDGE", "marshal")
			c.ruleSizeCache("R-SIZECACHE")
		},
	})
}

func mentionsField(info *types.Info, n ast.Node, field string) bool {
	found := false
	walk(n, func(x ast.Node) bool {
		if se, ok := x.(*ast.SelectorExpr); ok {
			if _, f, ok := fieldSel(info, se); ok && f == field {
				found = true
			}
		}
		return true
	})
	return found
}

func (c *Ctx) ruleSizeCache(rule string) {
	R, P := c.R, c.P
	R.Rule(rule, "size-cache discipline: flag introduction only after a fresh Size pass (or from the caller's explicit option); cache reads only under opts.UseCachedSize(); every exit of sizePointerSlow stores the computed size when the cache offset is valid and nothing else writes the cache; options are forwarded unchanged to nested size calls", 30)
	const flagConst = "runtime/protoiface.MarshalUseCachedSize"
	// (1) who-may-mention the flag constant
	for _, fi := range P.AllFuncs() {
		if fi.Decl.Body == nil {
			continue
		}
		info := fi.Info()
		var uses []*ast.Ident
		walk(fi.Decl.Body, func(n ast.Node) bool {
			if id, ok := n.(*ast.Ident); ok {
				if o := info.Uses[id]; o != nil && qualObj(o) == flagConst {
					uses = append(uses, id)
				}
			}
			return true
		})
		if len(uses) == 0 {
			continue
		}
		g := fi.CFG()
		for i, id := range uses {
			construct := fi.Key + " flag use #" + itoa(i+1)
			// find enclosing statement / expression kind
			var as *ast.AssignStmt
			var test *ast.BinaryExpr
			walk(fi.Decl.Body, func(n ast.Node) bool {
				switch v := n.(type) {
				case *ast.AssignStmt:
					if containsNode(v, id) {
						as = v
					}
				case *ast.BinaryExpr:
					if v.Op == token.AND && containsNode(v, id) {
						test = v
					}
				}
				return true
			})
			switch {
			case test != nil && (as == nil || !containsNode(as, test) || as.Tok == token.DEFINE || as.Tok == token.ASSIGN) && as == nil:
				R.OK(rule, construct, P.Pos(id), "reads the flag (flags & MarshalUseCachedSize)")
			case as != nil && as.Tok == token.OR_ASSIGN:
				switch fi.Key {
				case "proto.MarshalOptions.flags":
					dom := g.DominatedByCond(as, func(core ast.Expr, val bool) bool {
						_, f, ok := fieldSel(info, core)
						return ok && f == "UseCachedSize" && val
					})
					R.Check(dom, rule, construct, P.Pos(as), "copied from the caller's explicit UseCachedSize option", "flags() sets MarshalUseCachedSize without the caller's UseCachedSize option being set")
				case "proto.MarshalOptions.marshal":
					// dominated by methods.Size(SizeInput{Message: m, Flags: in.Flags})
					var sizeCall *ast.CallExpr
					dom := g.DominatedByNode(as, func(n ast.Node) bool {
						ok := false
						walk(n, func(x ast.Node) bool {
							call, isCall := x.(*ast.CallExpr)
							if !isCall {
								return true
							}
							if se, isSel := call.Fun.(*ast.SelectorExpr); isSel {
								if _, f, isF := fieldSel(info, se); isF && f == "Size" && len(call.Args) == 1 {
									sizeCall = call
									ok = true
								}
							}
							return true
						})
						return ok
					})
					R.Check(dom, rule, construct, P.Pos(as), "introduced after methods.Size on every path", "MarshalUseCachedSize is introduced on a path that did not run methods.Size first: Marshal would trust cached sizes that may predate a mutation")
					if sizeCall != nil {
						// SizeInput literal: Message is the same m as MarshalInput.Message, Flags is in.Flags
						okIn := false
						if cl, isCL := unparen(sizeCall.Args[0]).(*ast.CompositeLit); isCL {
							var msg, flg ast.Expr
							for _, el := range cl.Elts {
								if kv, isKV := el.(*ast.KeyValueExpr); isKV {
									switch kv.Key.(*ast.Ident).Name {
									case "Message":
										msg = kv.Value
									case "Flags":
										flg = kv.Value
									}
								}
							}
							// Flags must be <in>.Flags where <in> is the MarshalInput literal later passed to
							// methods.Marshal, and Message must be that literal's Message.
							defs := localDefs(fi.Decl.Body, info)
							if se, isSel := unparen(flg).(*ast.SelectorExpr); isSel && se.Sel.Name == "Flags" && msg != nil {
								if inObj := objOf(info, se.X); inObj != nil && len(defs[inObj]) == 1 {
									if cl2, isCL2 := unparen(defs[inObj][0].rhs).(*ast.CompositeLit); isCL2 {
										if ts, isTS := cl2.Type.(*ast.SelectorExpr); isTS && ts.Sel.Name == "MarshalInput" {
											for _, el := range cl2.Elts {
												if kv, isKV := el.(*ast.KeyValueExpr); isKV && kv.Key.(*ast.Ident).Name == "Message" {
													okIn = objOf(info, msg) != nil && objOf(info, msg) == objOf(info, kv.Value)
												}
											}
										}
									}
								}
							}
						}
						R.Check(okIn, rule, fi.Key+" size pass input", P.Pos(sizeCall), "Size runs on the same message with the marshal input's flags", "the Size pass that refreshes the caches does not run on the same message with the same flags as the Marshal that trusts them")
					}
				default:
					R.Bad(rule, construct, P.Pos(as), "MarshalUseCachedSize is introduced outside proto.MarshalOptions.marshal / flags(): nothing guarantees a fresh Size pass before the cached sizes are trusted")
				}
			case test != nil:
				R.OK(rule, construct, P.Pos(id), "reads the flag (flags & MarshalUseCachedSize)")
			default:
				R.Unk(rule, construct, P.Pos(id), "unrecognised use of MarshalUseCachedSize")
			}
		}
	}
	// (2) reads and (3) writes of the cache word in internal/impl
	stores := 0
	for _, fi := range P.FuncsIn("internal/impl") {
		if fi.Decl.Body == nil {
			continue
		}
		info := fi.Info()
		var g *FCFG
		k := 0
		walk(fi.Decl.Body, func(n ast.Node) bool {
			call, ok := n.(*ast.CallExpr)
			if !ok {
				return true
			}
			key := calleeKey(info, call)
			if !strings.HasPrefix(key, "sync/atomic.") || len(call.Args) == 0 || !mentionsField(info, call.Args[0], "sizecacheOffset") {
				return true
			}
			if g == nil {
				g = fi.CFG()
			}
			k++
			construct := fi.Key + " cache access #" + itoa(k)
			switch key {
			case "sync/atomic.LoadInt32":
				dom := g.DominatedByCond(call, func(core ast.Expr, val bool) bool {
					cc, isCall := unparen(core).(*ast.CallExpr)
					return isCall && val && calleeKey(info, cc) == "internal/impl.marshalOptions.UseCachedSize"
				})
				R.Check(dom, rule, construct, P.Pos(call), "read under opts.UseCachedSize()", "the cached size is read although UseCachedSize was not requested: a stale size from before a mutation would be used")
			case "sync/atomic.StoreInt32":
				stores++
				R.Check(fi.Key == "internal/impl.(*MessageInfo).sizePointerSlow", rule, construct, P.Pos(call), "written by the size pass", "the size cache is written outside sizePointerSlow")
			default:
				R.Unk(rule, construct, P.Pos(call), "unrecognised atomic access to the size cache: "+key)
			}
			return true
		})
		// any non-atomic mention of sizecacheOffset with Apply is an access too
		walk(fi.Decl.Body, func(n ast.Node) bool {
			call, ok := n.(*ast.CallExpr)
			if !ok || calleeKey(info, call) != "internal/impl.pointer.Apply" || len(call.Args) != 1 || !mentionsField(info, call.Args[0], "sizecacheOffset") {
				return true
			}
			// must be inside an atomic call
			inAtomic := false
			walk(fi.Decl.Body, func(m ast.Node) bool {
				if ac, ok := m.(*ast.CallExpr); ok && strings.HasPrefix(calleeKey(info, ac), "sync/atomic.") && containsNode(ac, call) {
					inAtomic = true
				}
				return true
			})
			if !inAtomic {
				R.Bad(rule, fi.Key+" plain cache access", P.Pos(call), "the size-cache word is accessed without sync/atomic")
			}
			return true
		})
	}
	if fi := c.need(rule, "internal/impl.(*MessageInfo).sizePointerSlow"); fi != nil {
		info := fi.Info()
		g := fi.CFG()
		k := 0
		walk(fi.Decl.Body, func(n ast.Node) bool {
			rs, ok := n.(*ast.ReturnStmt)
			if !ok {
				return true
			}
			k++
			dom := g.DominatedByCondOrNode(rs, func(core ast.Expr, val bool) bool {
				cc, isCall := unparen(core).(*ast.CallExpr)
				return isCall && !val && calleeKey(info, cc) == "internal/impl.offset.IsValid" && mentionsField(info, cc, "sizecacheOffset")
			}, func(x ast.Node) bool {
				sc := containsCall(info, x, "sync/atomic.StoreInt32")
				return sc != nil && mentionsField(info, sc.Args[0], "sizecacheOffset")
			})
			R.Check(dom, rule, fi.Key+" exit #"+itoa(k), P.Pos(rs), "stores the size (or the cache offset is invalid)", "sizePointerSlow returns without storing the computed size although the message has a size cache: a later Marshal with UseCachedSize would read a size computed before a mutation")
			return true
		})
	}
	c.sizeOptsForwarded(rule)
	if stores == 0 {
		R.Unk(rule, "cache stores", "", "no store to the size cache found")
	}
}

// sizeOptsForwarded: every function of internal/impl that receives
// marshalOptions forwards exactly that value to every callee taking
// marshalOptions and never assigns to it (so UseCachedSize/Deterministic seen
// by a nested message are the ones the top-level call was made with).
func (c *Ctx) sizeOptsForwarded(rule string) {
	R, P := c.R, c.P
	for _, fi := range P.FuncsIn("internal/impl") {
		if fi.Decl.Body == nil {
			continue
		}
		info := fi.Info()
		var optsObj types.Object
		for _, f := range fi.Decl.Type.Params.List {
			for _, nm := range f.Names {
				if namedTypeName(info.TypeOf(f.Type)) == "internal/impl.marshalOptions" {
					optsObj = info.Defs[nm]
				}
			}
		}
		if optsObj == nil {
			continue
		}
		reassigned := false
		walkAll(fi.Decl.Body, func(n ast.Node) bool {
			if v, ok := n.(*ast.AssignStmt); ok {
				for _, l := range v.Lhs {
					root := l
					for {
						if se, ok := unparen(root).(*ast.SelectorExpr); ok {
							root = se.X
							continue
						}
						break
					}
					if id, ok := unparen(root).(*ast.Ident); ok && info.Uses[id] == optsObj {
						reassigned = true
					}
				}
			}
			return true
		})
		j, badPos := 0, ""
		walkAll(fi.Decl.Body, func(n ast.Node) bool {
			call, ok := n.(*ast.CallExpr)
			if !ok {
				return true
			}
			takes := -1
			if sig, ok := info.TypeOf(call.Fun).(*types.Signature); ok {
				for i := 0; i < sig.Params().Len(); i++ {
					if namedTypeName(sig.Params().At(i).Type()) == "internal/impl.marshalOptions" {
						takes = i
					}
				}
			}
			if takes < 0 || takes >= len(call.Args) {
				return true
			}
			j++
			if id, ok := unparen(call.Args[takes]).(*ast.Ident); !ok || info.Uses[id] != optsObj {
				badPos = P.Pos(call)
			}
			return true
		})
		if j == 0 && !reassigned {
			continue
		}
		switch {
		case reassigned:
			R.Bad(rule, fi.Key+" opts forwarded", P.Pos(fi.Decl), "the marshal options parameter is modified inside an encoder/size function: nested messages would be sized or marshaled under different options than the caller's")
		case badPos != "":
			R.Bad(rule, fi.Key+" opts forwarded", badPos, "a nested size/marshal call receives options other than the caller's parameter: nested caches may not be refreshed consistently with the later Marshal")
		default:
			R.OK(rule, fi.Key+" opts forwarded", P.Pos(fi.Decl), itoa(j)+" nested calls receive opts unchanged")
		}
	}
}
