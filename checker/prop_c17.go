package main

func init() {
	register(&Property{
		ID:         "C17",
		Level:      "other",
		Technique:  "idiom conformance of the lazy index bookkeeping + dominance rules on lazy dereference + sibling agreement of the decode loops + finite case analysis of SizeField/AppendField (static)",
		Explain:    "Decides structural necessary conditions of C17: (1) the lazy field index built by unmarshalPointerLazy covers exactly each lazy field occurrence (trackers pos/end/lastNum updated on every iteration, entry built from them, extension only for contiguous repeats); (2) the raw lazy pass-through in Size/Marshal is used only when marshaling is not deterministic; (3) the three tag loops of the fast-path decoder — eager, lazy, and the deferred single-field decode run on first access — agree on number range checks, end groups and on treating a coder's errUnknown as an unknown record to skip; (4) protolazy's SizeField and AppendField, read as decision procedures over (several index entries, found), account for the same byte spans in every case. (5) a record stored in the unknown fields is never also covered by the lazy index (else it is written twice while the field stays lazy); (6) both tag loops expand a present but undecoded lazy field before decoding a further occurrence into its slot.",
		NotCovered: "value-level equivalence of lazy and eager decoding; panics inside protolazy lookups if an index is missing.",
		Quick:      all("./internal/impl", "./internal/protolazy"),
		Thorough:   allAndLegacy("./internal/impl", "./internal/protolazy"),
		Run: func(c *Ctx) {
			c.ruleLazyIndex("R-LAZY-INDEX")
			c.ruleLazyIndexExclusive("R-LAZY-INDEX-EXCLUSIVE")
			c.ruleLazyExpandBeforeDecode("R-LAZY-EXPAND-BEFORE-DECODE")
			c.ruleLazyDepthScope("R-LAZY-DEPTH-SCOPE")
			c.ruleLazyFlagGate("R-LAZY-FLAG-GATE")
			c.ruleMergeLoop("R-MERGE-LOOP")
			c.ruleLazyPassthrough("R-LAZY-PASSTHROUGH")
			c.ruleDecodeSiblings("R-DECODE-SIBLINGS")
			c.ruleLazyFieldParity("R-LAZY-FIELD-PARITY")
		},
	})
}
