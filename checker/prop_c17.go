package main

func init() {
	register(&Property{
		ID:         "C17",
		Level:      "other",
		Technique:  "idiom conformance of the lazy index bookkeeping + dominance rules on lazy dereference (static)",
		Explain:    "Decides structural necessary conditions of C17: (1) the lazy field index built by unmarshalPointerLazy covers exactly each lazy field occurrence (trackers pos/end/lastNum updated on every iteration, entry built from them, extension only for contiguous repeats); (2) the raw lazy pass-through in Size/Marshal is used only when marshaling is not deterministic.",
		NotCovered: "value-level equivalence of lazy and eager decoding; panics inside protolazy lookups if an index is missing.",
		Quick:      all("./internal/impl"),
		Thorough:   all("./..."),
		Run: func(c *Ctx) {
			c.ruleLazyIndex("R-LAZY-INDEX")
			c.ruleLazyPassthrough("R-LAZY-PASSTHROUGH")
		},
	})
}
