package main

import (
	"go/ast"
	"go/token"
	"go/types"
	"strings"
)

// R-VALIDATE-MAP-KEYVAL: in the wire validator's table for map fields the key
// validation type is decided from the key field and the value validation type
// from the value field.
func (c *Ctx) ruleValidateMapKeyVal(rule string) {
	R, P := c.R, c.P
	R.Rule(rule, "in impl.newValidationInfo every assignment to vi.keyType is inside a switch on fd.MapKey().Kind() and every assignment to vi.valType inside a switch on fd.MapValue().Kind()", 2)
	fi := c.need(rule, "internal/impl.newValidationInfo")
	if fi == nil {
		return
	}
	pm := parentMap(fi.Decl.Body)
	n := 0
	walkAll(fi.Decl.Body, func(x ast.Node) bool {
		as, ok := x.(*ast.AssignStmt)
		if !ok || len(as.Lhs) != 1 {
			return true
		}
		l := exprStr(as.Lhs[0])
		want := ""
		switch {
		case strings.HasSuffix(l, ".keyType"):
			want = "MapKey()"
		case strings.HasSuffix(l, ".valType"):
			want = "MapValue()"
		default:
			return true
		}
		n++
		tag := ""
		for p := pm[ast.Node(as)]; p != nil; p = pm[p] {
			if sw, ok := p.(*ast.SwitchStmt); ok && sw.Tag != nil && strings.Contains(exprStr(sw.Tag), "Map") {
				tag = exprStr(sw.Tag)
				break
			}
		}
		R.Check(strings.Contains(tag, want), rule, fi.Key+" "+l[strings.LastIndex(l, ".")+1:]+"#"+itoa(n), P.Pos(as), "decided from fd."+want, "the validation type "+l+" is decided by a switch on `"+tag+"`, not on fd."+want+".Kind(): for a map whose key and value kinds differ the wrong side is validated (an invalid UTF-8 string key of map<string, bytes> passes validation, so a lazily decoded submessage accepts what the eager decoder rejects)")
		return true
	})
	if n < 2 {
		R.Unk(rule, fi.Key, P.Pos(fi.Decl), "assignments to vi.keyType / vi.valType not found")
	}
}

// R-UTF8-STRING-ONLY: UTF-8 validity is a property of string fields. A case
// clause of a per-kind switch that also handles BytesKind must not apply the
// validity test: strs.EnforceUTF8 looks at the file's syntax/features, not at
// the field kind, so it is true for proto3 bytes fields as well.
func (c *Ctx) ruleUTF8StringOnly(rule string, pkgs []string, floor int) {
	R, P := c.R, c.P
	R.Rule(rule, "in "+strings.Join(pkgs, ", ")+" every case clause over protoreflect kinds that calls utf8.Valid/ValidString or strs.EnforceUTF8 is labelled StringKind only", floor)
	for _, pkg := range pkgs {
		for _, fi := range P.FuncsIn(pkg) {
			if fi.Decl.Body == nil {
				continue
			}
			info := fi.Info()
			k := 0
			walkAll(fi.Decl.Body, func(x ast.Node) bool {
				cc, ok := x.(*ast.CaseClause)
				if !ok || len(cc.List) == 0 {
					return true
				}
				var labels []string
				for _, e := range cc.List {
					s := exprStr(e)
					if !strings.HasSuffix(s, "Kind") {
						return true
					}
					labels = append(labels, s[strings.LastIndex(s, ".")+1:])
				}
				validates := false
				for _, st := range cc.Body {
					walk(st, func(m ast.Node) bool {
						if _, nested := m.(*ast.CaseClause); nested {
							return false
						}
						if call, ok := m.(*ast.CallExpr); ok {
							switch calleeKey(info, call) {
							case "unicode/utf8.Valid", "unicode/utf8.ValidString", "internal/strs.EnforceUTF8":
								validates = true
							}
						}
						return true
					})
				}
				if !validates {
					return true
				}
				k++
				only := len(labels) == 1 && labels[0] == "StringKind"
				R.Check(only, rule, fi.Key+" UTF-8 clause#"+itoa(k), P.Pos(cc), "StringKind only", "the UTF-8 validity test is applied in a clause labelled {"+strings.Join(labels, ", ")+"}: bytes values that are not valid UTF-8 (which are legal, and which the encoder writes) are rejected in proto3 and UTF-8-validating editions messages")
				return true
			})
		}
	}
}

// R-APPEND-CAPPED: a buffer that is carved out of the decoder's input and then
// appended to has to be a three-index slice, so that the append reallocates
// instead of overwriting the input that follows.
func (c *Ctx) ruleAppendCapped(rule string, keys []string) {
	R, P := c.R, c.P
	R.Rule(rule, "in each listed function every local that is initialised from a slice expression and later extended by append is initialised from a three-index slice (capacity = length)", len(keys))
	for _, key := range keys {
		fi := c.need(rule, key)
		if fi == nil {
			continue
		}
		info := fi.Info()
		sliced := map[types.Object]*ast.SliceExpr{}
		walkAll(fi.Decl.Body, func(x ast.Node) bool {
			as, ok := x.(*ast.AssignStmt)
			if !ok || as.Tok != token.DEFINE || len(as.Lhs) != len(as.Rhs) {
				return true
			}
			for i := range as.Lhs {
				if se, ok := unparen(as.Rhs[i]).(*ast.SliceExpr); ok {
					if o := objOf(info, as.Lhs[i]); o != nil {
						sliced[o] = se
					}
				}
			}
			return true
		})
		n, bad := 0, ""
		seen := map[types.Object]bool{}
		walkAll(fi.Decl.Body, func(x ast.Node) bool {
			call, ok := x.(*ast.CallExpr)
			if !ok || calleeKey(info, call) != "builtin.append" || len(call.Args) == 0 {
				return true
			}
			o := objOf(info, call.Args[0])
			se, ok := sliced[o]
			if !ok || seen[o] {
				return true
			}
			seen[o] = true
			n++
			if !se.Slice3 {
				bad = "`" + o.Name() + " := " + exprStr(se) + "` at " + P.Pos(se)
			}
			return true
		})
		switch {
		case bad != "":
			R.Bad(rule, key, P.Pos(fi.Decl), "the append destination "+bad+" keeps the capacity of the slice it was cut from: appending writes into the input that follows (the unescaped output overwrites the rest of the literal in the caller's buffer), so the same buffer parses differently the second time")
		case n == 0:
			R.Unk(rule, key, P.Pos(fi.Decl), "no append onto a local cut from a slice found")
		default:
			R.OK(rule, key, P.Pos(fi.Decl), itoa(n)+" append destinations, all capacity-limited")
		}
	}
}

// R-SETUNKNOWN-OWN: the reflective decoder stores unknown fields with
// SetUnknown. What it stores has to be storage of the message's own
// (append onto GetUnknown()), never a sub-slice of the input buffer.
func (c *Ctx) ruleSetUnknownOwn(rule string) {
	R, P := c.R, c.P
	R.Rule(rule, "in package proto's decoders every SetUnknown argument is append(<message>.GetUnknown(), …) (or a local assigned from such an append); a slice expression of a []byte parameter is a violation", 2)
	for _, fi := range P.FuncsIn("proto") {
		if fi.Decl.Body == nil || !strings.Contains(strings.ToLower(fi.Obj.Name()), "unmarshal") {
			continue
		}
		info := fi.Info()
		defs := localDefs(fi.Decl.Body, info)
		params := map[types.Object]bool{}
		for _, f := range fi.Decl.Type.Params.List {
			for _, nm := range f.Names {
				if _, ok := info.Defs[nm].Type().Underlying().(*types.Slice); ok {
					params[info.Defs[nm]] = true
				}
			}
		}
		var own func(e ast.Expr, d int) string
		own = func(e ast.Expr, d int) string {
			if d > 4 {
				return "unknown"
			}
			switch x := unparen(e).(type) {
			case *ast.CallExpr:
				if calleeKey(info, x) == "builtin.append" && len(x.Args) >= 1 {
					if strings.HasSuffix(exprStr(x.Args[0]), ".GetUnknown()") || exprStr(x.Args[0]) == "nil" {
						return "own"
					}
					return own(x.Args[0], d+1)
				}
				if strings.HasPrefix(calleeKey(info, x), "encoding/protowire.Append") && len(x.Args) >= 1 {
					return own(x.Args[0], d+1)
				}
				if strings.HasSuffix(exprStr(x), ".GetUnknown()") {
					return "own"
				}
			case *ast.SliceExpr:
				if id, ok := unparen(x.X).(*ast.Ident); ok {
					if v, ok := info.Uses[id].(*types.Var); ok && (len(defs[v]) == 0 || params[v]) {
						return "input"
					}
				}
				return own(x.X, d+1)
			case *ast.Ident:
				if params[info.Uses[x]] {
					return "input"
				}
				res := ""
				for _, df := range defs[info.Uses[x]] {
					r := own(df.rhs, d+1)
					if r == "input" {
						return r
					}
					if r == "own" {
						res = r
					}
				}
				if res != "" {
					return res
				}
				if v, ok := info.Uses[x].(*types.Var); ok && len(defs[v]) == 0 {
					return "input"
				}
			}
			return "unknown"
		}
		k := 0
		walkAll(fi.Decl.Body, func(x ast.Node) bool {
			call, ok := x.(*ast.CallExpr)
			if !ok || len(call.Args) != 1 {
				return true
			}
			se, ok := call.Fun.(*ast.SelectorExpr)
			if !ok || se.Sel.Name != "SetUnknown" {
				return true
			}
			k++
			key := fi.Key + " SetUnknown#" + itoa(k)
			switch own(call.Args[0], 0) {
			case "own":
				R.OK(rule, key, P.Pos(call), "appended onto the message's own unknown bytes")
			case "input":
				R.Bad(rule, key, P.Pos(call), "the unknown fields are set to `"+exprStr(call.Args[0])+"`, a sub-slice of the input buffer: the decoded message aliases the caller's memory, and a later write to the buffer (or its reuse by a bufio.Reader) changes the message")
			default:
				R.Unk(rule, key, P.Pos(call), "origin of `"+exprStr(call.Args[0])+"` not recognised")
			}
			return true
		})
	}
}

// R-CACHE-CANONICAL: the type and descriptor caches of the legacy wrappers are
// filled on first use from any goroutine. After a miss the freshly built value
// has to be published with LoadOrStore and the stored value returned, so that
// all goroutines observe one identity; Store after a Load miss lets concurrent
// first users each keep a value of their own.
func (c *Ctx) ruleCacheCanonical(rule string, exempt map[string]string, floor int) {
	R, P := c.R, c.P
	R.Rule(rule, "in internal/impl every function that returns after publishing into a package-level sync.Map cache it missed in publishes with LoadOrStore (and returns the loaded value when one was present); a plain Store is a violation unless exempted with a reason", floor)
	for _, fi := range P.FuncsIn("internal/impl") {
		if fi.Decl.Body == nil {
			continue
		}
		info := fi.Info()
		isCache := func(e ast.Expr) string {
			se, ok := unparen(e).(*ast.SelectorExpr)
			if !ok {
				return ""
			}
			if namedTypeName(info.TypeOf(se.X)) != "sync.Map" {
				return ""
			}
			return exprStr(se.X)
		}
		loads := map[string]bool{}
		walkAll(fi.Decl.Body, func(x ast.Node) bool {
			if call, ok := x.(*ast.CallExpr); ok {
				if se, ok := call.Fun.(*ast.SelectorExpr); ok && se.Sel.Name == "Load" {
					if m := isCache(call.Fun); m != "" {
						loads[m] = true
					}
				}
			}
			return true
		})
		walkAll(fi.Decl.Body, func(x ast.Node) bool {
			call, ok := x.(*ast.CallExpr)
			if !ok {
				return true
			}
			se, ok := call.Fun.(*ast.SelectorExpr)
			if !ok || (se.Sel.Name != "Store" && se.Sel.Name != "LoadOrStore") {
				return true
			}
			m := isCache(call.Fun)
			if m == "" {
				return true
			}
			key := fi.Key + " publishes into " + m
			if why, ok := exempt[key]; ok {
				R.Exempt(rule, key, P.Pos(call), why)
				return true
			}
			if se.Sel.Name == "LoadOrStore" {
				R.OK(rule, key, P.Pos(call), "LoadOrStore")
				return true
			}
			if loads[m] {
				R.Bad(rule, key, P.Pos(call), "after a Load miss the value is published with Store: goroutines that make first use of the type concurrently each build, return and keep their own value, so they observe different identities (MessageType, descriptor) for one Go type, unlike a sequential program")
			} else {
				R.OK(rule, key, P.Pos(call), "Store without a preceding Load in this function")
			}
			return true
		})
	}
}

// R-ANY-DUP-FLAG: the text decoder rejects a repeated type_url or value field
// of an Any. "Seen before" has to be remembered in a flag set on every
// occurrence; testing the stored value for non-emptiness forgets an empty
// first occurrence.
func (c *Ctx) ruleAnyDupFlag(rule string) {
	R, P := c.R, c.P
	R.Rule(rule, "in prototext.decoder.unmarshalAny each `duplicate … field` error is guarded by a bool local that the same case clause sets to true; a guard on the length or content of the stored value is a violation", 2)
	fi := c.need(rule, "encoding/prototext.decoder.unmarshalAny")
	if fi == nil {
		return
	}
	info := fi.Info()
	n := 0
	walkAll(fi.Decl.Body, func(x ast.Node) bool {
		cc, ok := x.(*ast.CaseClause)
		if !ok {
			return true
		}
		for _, st := range cc.Body {
			is, ok := st.(*ast.IfStmt)
			if !ok || len(is.Body.List) != 1 {
				continue
			}
			rs, ok := is.Body.List[0].(*ast.ReturnStmt)
			if !ok || !strings.Contains(exprStr2ret(rs), "duplicate") {
				continue
			}
			n++
			key := fi.Key + " duplicate test#" + itoa(n)
			id, isId := unparen(is.Cond).(*ast.Ident)
			good := false
			if isId {
				if b, ok := info.TypeOf(id).Underlying().(*types.Basic); ok && b.Kind() == types.Bool {
					// set to true in this clause
					for _, s2 := range cc.Body {
						if as, ok := s2.(*ast.AssignStmt); ok && len(as.Lhs) == 1 && len(as.Rhs) == 1 && objOf(info, as.Lhs[0]) == info.Uses[id] && exprStr(as.Rhs[0]) == "true" {
							good = true
						}
					}
				}
			}
			R.Check(good, rule, key, P.Pos(is), "flag set on every occurrence", "the duplicate test is `"+exprStr(is.Cond)+"`, not a flag set on every occurrence: an empty first occurrence (type_url: \"\" or value: \"\") is not remembered, so a second occurrence is accepted and replaces it")
		}
		return true
	})
	if n < 2 {
		R.Unk(rule, fi.Key, P.Pos(fi.Decl), "expected the duplicate tests for type_url and value")
	}
}

func exprStr2ret(rs *ast.ReturnStmt) string {
	var ss []string
	for _, r := range rs.Results {
		ss = append(ss, exprStr(r))
	}
	return strings.Join(ss, ", ")
}
