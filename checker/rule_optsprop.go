package main

import (
	"go/ast"
	"go/token"
)

// R-OPTS-PROP: the DiscardUnknown option reaches nested decoders.
//
//	(1) impl.unmarshalOptions.Options() builds proto.UnmarshalOptions with
//	    DiscardUnknown: o.DiscardUnknown();
//	(2) unmarshalOptions.DiscardUnknown tests flags against UnmarshalDiscardUnknown;
//	(3) proto.UnmarshalOptions.unmarshal sets in.Flags |= UnmarshalDiscardUnknown
//	    under `o.DiscardUnknown`;
//	(4) every UnmarshalState call in internal/impl is made on opts.Options().
func (c *Ctx) ruleOptsProp(rule string) {
	R, P := c.R, c.P
	R.Rule(rule, "DiscardUnknown propagates: Options() copies it from the flags, the flag test uses UnmarshalDiscardUnknown, proto.unmarshal sets the flag under o.DiscardUnknown, and every nested UnmarshalState in internal/impl is invoked on opts.Options()", 6)
	if fi := c.need(rule, "internal/impl.unmarshalOptions.Options"); fi != nil {
		info := fi.Info()
		ok := false
		walk(fi.Decl.Body, func(n ast.Node) bool {
			kv, isKV := n.(*ast.KeyValueExpr)
			if !isKV {
				return true
			}
			if id, isID := kv.Key.(*ast.Ident); isID && id.Name == "DiscardUnknown" {
				if call, isCall := unparen(kv.Value).(*ast.CallExpr); isCall && calleeKey(info, call) == "internal/impl.unmarshalOptions.DiscardUnknown" {
					ok = true
				}
			}
			return true
		})
		R.Check(ok, rule, fi.Key+" DiscardUnknown field", P.Pos(fi.Decl), "DiscardUnknown: o.DiscardUnknown()", "Options() does not copy DiscardUnknown from the decoder flags: nested messages decoded through proto.UnmarshalOptions would retain unknown fields")
	}
	if fi := c.need(rule, "internal/impl.unmarshalOptions.DiscardUnknown"); fi != nil {
		info := fi.Info()
		ok := false
		walk(fi.Decl.Body, func(n ast.Node) bool {
			if be, isBE := n.(*ast.BinaryExpr); isBE && be.Op == token.AND {
				if qualObj(objOf(info, be.Y)) == "runtime/protoiface.UnmarshalDiscardUnknown" || qualObj(objOf(info, be.X)) == "runtime/protoiface.UnmarshalDiscardUnknown" {
					ok = true
				}
			}
			return true
		})
		R.Check(ok, rule, fi.Key+" flag", P.Pos(fi.Decl), "tests flags & UnmarshalDiscardUnknown", "DiscardUnknown() does not test the UnmarshalDiscardUnknown flag bit")
	}
	if fi := c.need(rule, "proto.UnmarshalOptions.unmarshal"); fi != nil {
		info := fi.Info()
		g := fi.CFG()
		var site ast.Node
		walk(fi.Decl.Body, func(n ast.Node) bool {
			if as, isAs := n.(*ast.AssignStmt); isAs && as.Tok == token.OR_ASSIGN && len(as.Rhs) == 1 {
				if qualObj(objOf(info, as.Rhs[0])) == "runtime/protoiface.UnmarshalDiscardUnknown" {
					site = as
				}
			}
			return true
		})
		if site == nil {
			R.Bad(rule, fi.Key+" set flag", P.Pos(fi.Decl), "proto.unmarshal never sets in.Flags |= UnmarshalDiscardUnknown: the fast path would ignore the option")
		} else {
			dom := g.DominatedByCond(site, func(core ast.Expr, val bool) bool {
				_, f, ok := fieldSel(info, core)
				return ok && f == "DiscardUnknown" && val
			})
			R.Check(dom, rule, fi.Key+" set flag", P.Pos(site), "flag set under o.DiscardUnknown", "UnmarshalDiscardUnknown flag is not set exactly under o.DiscardUnknown")
			// the call of methods.Unmarshal must come after (not be reachable without passing the if)
		}
	}
	n := 0
	for _, fi := range P.FuncsIn("internal/impl") {
		if fi.Decl.Body == nil {
			continue
		}
		info := fi.Info()
		for _, call := range allCalls(info, fi.Decl.Body, "proto.UnmarshalOptions.UnmarshalState", "proto.UnmarshalOptions.Unmarshal") {
			n++
			ok := false
			if se, isSel := unparen(call.Fun).(*ast.SelectorExpr); isSel {
				if rc, isCall := unparen(se.X).(*ast.CallExpr); isCall && calleeKey(info, rc) == "internal/impl.unmarshalOptions.Options" {
					ok = true
				}
			}
			R.Check(ok, rule, fi.Key+" nested decode #"+itoa(n), P.Pos(call), "invoked on opts.Options()", "nested proto decode in internal/impl is not invoked on opts.Options(): caller's DiscardUnknown/Resolver/NoLazyDecoding are lost for this submessage")
		}
	}
}
