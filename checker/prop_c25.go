package main

import (
	"go/ast"
	"go/token"
	"go/types"
	"strings"
)

func init() {
	register(&Property{
		ID:         "C25",
		Level:      "other",
		Technique:  "finite case analysis of the text string scanners' switch conditions (every byte class, every rune bit-length class, both ASCII modes) + writer/reader escape-table agreement + recursion guard on unknown-field printing (static)",
		Explain:    "Decides structural necessary conditions of lossless text string literals: (1) encoder: every control character, the quote, the backslash, DEL and every byte of an invalid UTF-8 sequence selects an escaping clause, whose escape is a letter the decoder maps back to that character or \\x followed by exactly two hex digits; non-ASCII runes are escaped as \\u with exactly four or \\U with exactly eight hex digits whenever ASCII output is requested (and always for U+0080..U+009F), so ASCII mode emits no byte >= 0x80; (2) decoder: NUL, newline and invalid UTF-8 inside a literal are rejected, the escape switch accepts exactly the letters of the text format with their C values, octal/hex/Unicode escapes go through strconv with the right base and width, a high surrogate must be followed by a \\u escape, any other letter is an error; (3) every escape the encoder can emit is accepted by the decoder with the same value; (4) printing unknown fields recurses only through ConsumeGroup payloads (bounded). Also: the UTF-8 validity test of the text decoder is confined to StringKind clauses (bytes are exempt), and parseString's output buffer is cut from the input with a three-index slice, so unescaping never writes into the caller's buffer.",
		NotCovered: "byte-for-byte round trip on concrete values; concatenation of adjacent literals; single-quote handling; numeric parsing inside strconv.",
		Quick:      all("./internal/encoding/text", "./encoding/prototext"),
		Thorough:   all("./..."),
		Run: func(c *Ctx) {
			c.ruleUTF8StringOnly("R-UTF8-STRING-ONLY", []string{"encoding/prototext"}, 1)
			c.ruleAppendCapped("R-APPEND-CAPPED", []string{"internal/encoding/text.(*Decoder).parseString"})
			c.ruleTextEscapes("R-TEXT-ESCAPES")
			c.ruleRecursionGuard(recScope{Rule: "R-RECURSION-GUARD", Pkgs: []string{"encoding/prototext"}, Extra: recursionExtrasJSONText(), Floor: 3})
		},
	})
}

var textEscapeLetter = map[int64]int64{'"': '"', '\'': '\'', '\\': '\\', '?': '?', 'a': 7, 'b': 8, 'n': 10, 'r': 13, 't': 9, 'v': 11, 'f': 12}

func (c *Ctx) ruleTextEscapes(rule string) {
	R, P := c.R, c.P
	R.Rule(rule, "text-format string scanners by finite case analysis: encoder escapes every character that must be escaped (and every non-ASCII rune in ASCII mode) with an escape the decoder maps back to it (\\x: two hex digits, \\u: four, \\U: eight); decoder rejects NUL, newline and invalid UTF-8, accepts exactly the text-format escape letters with their C values, and requires a \\u escape after a high surrogate", 300)
	const tp = "internal/encoding/text."
	// ---------------- decoder
	decLetters := map[int64]bool{}
	if fi := c.need(rule, tp+"(*Decoder).parseString"); fi != nil {
		info := fi.Info()
		sw, r, n := runeSwitch(info, fi.Decl.Body, "unicode/utf8.DecodeRune")
		if sw == nil {
			R.Unk(rule, fi.Key, P.Pos(fi.Decl), "no `switch r, n := utf8.DecodeRune(in); {…}` found")
		} else {
			for _, ch := range []int64{0, '\n'} {
				cc, ok := selectClause(info, sw, nil, map[types.Object]int64{r: ch, n: 1})
				construct := fi.Key + " raw 0x" + hex2(ch)
				if !ok || cc == nil {
					R.Unk(rule, construct, P.Pos(sw), "cannot evaluate the switch conditions")
					continue
				}
				R.Check(clauseReturnsError(info, cc), rule, construct, P.Pos(cc), "rejected", "a raw NUL/newline inside a string literal is accepted")
			}
			if cc, ok := selectClause(info, sw, nil, map[types.Object]int64{r: 0xFFFD, n: 1}); ok && cc != nil {
				R.Check(clauseReturnsError(info, cc), rule, fi.Key+" invalid UTF-8", P.Pos(cc), "rejected", "invalid UTF-8 inside a string literal is accepted")
			} else {
				R.Unk(rule, fi.Key+" invalid UTF-8", P.Pos(sw), "cannot evaluate the switch conditions")
			}
			c.verbatimCopyBounded(rule, fi, sw, tp+"indexNeedEscapeInString", func(b int64) bool { return b == 0 || b == '\n' || b == '"' || b == '\'' || b == '\\' || b >= 0x80 }, true)
			var esc *ast.SwitchStmt
			walk(sw.Body, func(x ast.Node) bool {
				if s, ok := x.(*ast.SwitchStmt); ok && s.Tag != nil && esc == nil {
					esc = s
					return false
				}
				return true
			})
			if esc == nil {
				R.Unk(rule, fi.Key+" escape switch", P.Pos(sw), "no tagged switch on the escape letter")
			} else {
				tagObj := objOf(info, esc.Tag)
				var uClause *ast.CaseClause
				for ch := int64(0); ch < 256; ch++ {
					cc, ok := selectClause(info, esc, esc.Tag, map[types.Object]int64{tagObj: ch})
					construct := fi.Key + " escape \\" + printable(ch)
					if !ok || cc == nil {
						R.Unk(rule, construct, P.Pos(esc), "cannot evaluate the escape switch")
						continue
					}
					want, simple := textEscapeLetter[ch]
					base := func(b int64) bool {
						call := containsCall(info, cc, "strconv.ParseUint")
						if call == nil || len(call.Args) != 3 {
							return false
						}
						v, ok := constInt(info, call.Args[1])
						return ok && v == b
					}
					switch {
					case simple:
						decLetters[ch] = true
						consts, non := appendedConsts(info, cc.Body)
						good := (len(consts) == 1 && len(non) == 0 && consts[0] == want) || (len(consts) == 0 && len(non) == 1 && objOf(info, non[0]) == tagObj && want == ch)
						R.Check(good && !clauseReturnsError(info, cc), rule, construct, P.Pos(cc), "yields its C value", "the escape does not yield the character the text format assigns to it")
					case ch >= '0' && ch <= '7':
						decLetters[ch] = true
						R.Check(base(8), rule, construct, P.Pos(cc), "octal escape parsed in base 8", "octal escape is not parsed in base 8")
					case ch == 'x':
						decLetters[ch] = true
						R.Check(base(16), rule, construct, P.Pos(cc), "hex escape parsed in base 16", "\\x escape is not parsed in base 16")
					case ch == 'u' || ch == 'U':
						decLetters[ch] = true
						R.Check(base(16), rule, construct, P.Pos(cc), "Unicode escape parsed in base 16", "\\u/\\U escape is not parsed in base 16")
						uClause = cc
					default:
						R.Check(clauseReturnsError(info, cc), rule, construct, P.Pos(cc), "rejected", "an escape letter outside the text format is accepted")
					}
				}
				if uClause != nil {
					c.jsonSurrogateLowHalf(rule, fi, uClause)
				}
			}
		}
	}
	// ---------------- encoder
	fi := c.need(rule, tp+"appendString")
	if fi == nil {
		return
	}
	info := fi.Info()
	sw, r, n := runeSwitch(info, fi.Decl.Body, "unicode/utf8.DecodeRuneInString")
	if sw == nil {
		R.Unk(rule, fi.Key, P.Pos(fi.Decl), "no `switch r, n := utf8.DecodeRuneInString(in); {…}` found")
		return
	}
	c.verbatimCopyBounded(rule, fi, sw, tp+"indexNeedEscapeInString", func(b int64) bool { return b < 0x20 || b == '"' || b == '\\' || b >= 0x7f }, true)
	var asciiObj types.Object
	for _, f := range fi.Decl.Type.Params.List {
		for _, nm := range f.Names {
			if b, ok := info.TypeOf(f.Type).Underlying().(*types.Basic); ok && b.Kind() == types.Bool {
				asciiObj = info.Defs[nm]
			}
		}
	}
	// follow `fallthrough` from a clause that rebinds r from the raw byte
	clauseAfterFallthrough := func(cc *ast.CaseClause) *ast.CaseClause {
		if len(cc.Body) == 0 {
			return cc
		}
		if bs, ok := cc.Body[len(cc.Body)-1].(*ast.BranchStmt); ok && bs.Tok == token.FALLTHROUGH {
			for i, s := range sw.Body.List {
				if s == ast.Stmt(cc) && i+1 < len(sw.Body.List) {
					return sw.Body.List[i+1].(*ast.CaseClause)
				}
			}
		}
		return cc
	}
	checkEscape := func(construct string, cc *ast.CaseClause, ch int64, ascii int64) {
		consts, _ := appendedConsts(info, cc.Body)
		hasBackslash := false
		for _, k := range consts {
			if k == '\\' {
				hasBackslash = true
			}
		}
		if !hasBackslash {
			R.Bad(rule, construct, P.Pos(cc), "a character that must be escaped selects a clause that copies it verbatim")
			return
		}
		// inner letter switch (control characters) or if/else on the rune width (non-ASCII)
		for _, s := range cc.Body {
			switch x := s.(type) {
			case *ast.SwitchStmt:
				if x.Tag == nil {
					continue
				}
				ic, ok := selectClause(info, x, x.Tag, map[types.Object]int64{r: ch})
				if !ok || ic == nil {
					R.Unk(rule, construct, P.Pos(x), "cannot evaluate the escape-letter switch")
					return
				}
				ks, non := appendedConsts(info, ic.Body)
				good := false
				switch {
				case len(ks) >= 1 && ks[0] == 'x':
					d, ok := escapeDigits(info, ic.Body, r, ch)
					good = ok && d == 2 && decLetters['x']
				case len(ks) == 1 && len(non) == 0:
					good = textEscapeLetter[ks[0]] == ch && decLetters[ks[0]]
				case len(ks) == 0 && len(non) == 1:
					if v, ok := evalInt(info, non[0], map[types.Object]int64{r: ch}); ok {
						good = textEscapeLetter[v] == ch && decLetters[v]
					}
				}
				R.Check(good, rule, construct, P.Pos(ic), "escaped with a sequence the decoder maps back to it", "the emitted escape is not read back as this character (wrong letter, or \\x not followed by exactly two hex digits)")
				return
			case *ast.IfStmt:
				b, ok := evalBool(info, x.Cond, map[types.Object]int64{r: ch})
				if !ok {
					R.Unk(rule, construct, P.Pos(x), "cannot evaluate the rune-width test")
					return
				}
				body := x.Body.List
				if !b {
					if eb, ok := x.Else.(*ast.BlockStmt); ok {
						body = eb.List
					} else {
						R.Unk(rule, construct, P.Pos(x), "no else branch for wide runes")
						return
					}
				}
				ks, _ := appendedConsts(info, body)
				d, okD := escapeDigits(info, body, r, ch)
				good := okD && len(ks) >= 1 && ((ks[0] == 'u' && d == 4 && ch <= 0xffff) || (ks[0] == 'U' && d == 8)) && decLetters[ks[0]]
				R.Check(good, rule, construct, P.Pos(x), "\\u with four / \\U with eight hex digits", "a non-ASCII rune is escaped with the wrong letter or digit count for the decoder (\\u needs exactly four, \\U exactly eight)")
				return
			}
		}
		R.Unk(rule, construct, P.Pos(cc), "escaping clause has neither a letter switch nor a width test")
	}
	var must []int64
	for ch := int64(0); ch < 0x20; ch++ {
		must = append(must, ch)
	}
	must = append(must, '"', '\\', 0x7f)
	for _, ch := range must {
		construct := fi.Key + " char 0x" + hex2(ch)
		cc, ok := selectClause(info, sw, nil, map[types.Object]int64{r: ch, n: 1, asciiObj: 0})
		if !ok || cc == nil {
			R.Unk(rule, construct, P.Pos(sw), "cannot evaluate the switch conditions")
			continue
		}
		checkEscape(construct, cc, ch, 0)
	}
	// invalid UTF-8 bytes
	if cc, ok := selectClause(info, sw, nil, map[types.Object]int64{r: 0xFFFD, n: 1, asciiObj: 0}); ok && cc != nil {
		next := clauseAfterFallthrough(cc)
		rebinds := false
		walk(cc, func(x ast.Node) bool {
			if as, ok := x.(*ast.AssignStmt); ok && len(as.Lhs) == 1 && objOf(info, as.Lhs[0]) == r {
				rebinds = true
			}
			return true
		})
		if next == cc || !rebinds {
			R.Bad(rule, fi.Key+" invalid UTF-8 byte", P.Pos(cc), "a byte of an invalid UTF-8 sequence is not rebound to its byte value and escaped")
		} else {
			for _, ch := range []int64{0x80, 0xbf, 0xc0, 0xff} {
				checkEscape(fi.Key+" invalid byte 0x"+hex2(ch), next, ch, 0)
			}
		}
	} else {
		R.Unk(rule, fi.Key+" invalid UTF-8 byte", P.Pos(sw), "cannot evaluate the switch conditions for (RuneError, 1)")
	}
	// non-ASCII runes: every bit-length class, both modes
	for L := 8; L <= 21; L++ {
		lo, hi := int64(1)<<uint(L-1), int64(1)<<uint(L)-1
		if hi > 0x10FFFF {
			hi = 0x10FFFF
		}
		for _, ch := range []int64{lo, hi} {
			if ch >= 0xD800 && ch <= 0xDFFF {
				continue
			}
			construct := fi.Key + " rune U+" + hex2(ch>>16) + hex2(ch>>8) + hex2(ch) + " ascii"
			cc, ok := selectClause(info, sw, nil, map[types.Object]int64{r: ch, n: 2, asciiObj: 1})
			if !ok || cc == nil {
				R.Unk(rule, construct, P.Pos(sw), "cannot evaluate the switch conditions")
				continue
			}
			checkEscape(construct, cc, ch, 1)
		}
	}
	for _, ch := range []int64{0x80, 0x9f} {
		construct := fi.Key + " rune U+00" + hex2(ch) + " non-ascii mode"
		if cc, ok := selectClause(info, sw, nil, map[types.Object]int64{r: ch, n: 2, asciiObj: 0}); ok && cc != nil {
			checkEscape(construct, cc, ch, 0)
		} else {
			R.Unk(rule, construct, P.Pos(sw), "cannot evaluate the switch conditions")
		}
	}
}

// verbatimCopyBounded: the clause that copies input verbatim extends the copy
// only up to the next byte the stop-helper reports, and the helper stops at
// every byte in mustStop.
func (c *Ctx) verbatimCopyBounded(rule string, fi *FuncInfo, sw *ast.SwitchStmt, helperKey string, mustStop func(b int64) bool, byteWise bool) {
	R, P := c.R, c.P
	info := fi.Info()
	var def *ast.CaseClause
	for _, s := range sw.Body.List {
		if cc := s.(*ast.CaseClause); cc.List == nil {
			def = cc
		}
	}
	construct := fi.Key + " verbatim copy"
	if def == nil {
		R.Unk(rule, construct, P.Pos(sw), "no default (verbatim copy) clause")
		return
	}
	loops, helperCalls := 0, 0
	var other []string
	walk(def, func(n ast.Node) bool {
		switch x := n.(type) {
		case *ast.ForStmt, *ast.RangeStmt:
			loops++
		case *ast.CallExpr:
			k := calleeKey(info, x)
			switch {
			case k == helperKey || strings.HasSuffix(k, "indexNeedEscapeInBytes") || strings.HasSuffix(k, "indexNeedEscapeInString"):
				helperCalls++
			case k == "" || k == "append":
			default:
				if id, ok := x.Fun.(*ast.Ident); ok && id.Name == "append" {
					break
				}
				if tv, ok := info.Types[x.Fun]; ok && tv.IsType() {
					break
				}
				other = append(other, k)
			}
		}
		return true
	})
	R.Check(loops == 0 && helperCalls == 1 && len(other) == 0, rule, construct, P.Pos(def), "copy length = current rune + one stop-helper scan", "the verbatim-copy clause extends the copy by more than one scan of the stop helper (loops or extra calls: "+strings.Join(other, ",")+"): bytes that need escaping can be copied without being examined")
	// the helper stops at every byte that must not be copied verbatim
	hf := c.need(rule, helperKey)
	if hf == nil {
		return
	}
	hinfo := hf.Info()
	var cond ast.Expr
	var cObj types.Object
	walk(hf.Decl.Body, func(n ast.Node) bool {
		is, ok := n.(*ast.IfStmt)
		if !ok || cond != nil {
			return true
		}
		ret := false
		walk(is.Body, func(m ast.Node) bool {
			if _, ok := m.(*ast.ReturnStmt); ok {
				ret = true
			}
			return true
		})
		if !ret {
			return true
		}
		cond = is.Cond
		if as, ok := is.Init.(*ast.AssignStmt); ok && len(as.Lhs) == 1 {
			cObj = hinfo.Defs[as.Lhs[0].(*ast.Ident)]
		}
		return true
	})
	if cond == nil {
		R.Unk(rule, helperKey, P.Pos(hf.Decl), "stop condition not found in the helper")
		return
	}
	if cObj == nil {
		// `for i, r := range s { if r … }`: the loop variable
		walk(hf.Decl.Body, func(n ast.Node) bool {
			if rs, ok := n.(*ast.RangeStmt); ok {
				if id, ok := rs.Value.(*ast.Ident); ok {
					cObj = hinfo.Defs[id]
				}
			}
			return true
		})
	}
	bad := ""
	for b := int64(0); b < 256; b++ {
		if !mustStop(b) {
			continue
		}
		v, ok := evalBool(hinfo, cond, map[types.Object]int64{cObj: b})
		if !ok || !v {
			bad = "0x" + hex2(b)
			break
		}
	}
	R.Check(bad == "", rule, helperKey+" stop set", P.Pos(hf.Decl), "stops at every byte that must be examined", "the stop helper does not stop at byte "+bad+": that byte would be copied verbatim")
}
