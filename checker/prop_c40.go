package main

var generatorPkgs = []string{"compiler/protogen", "cmd/protoc-gen-go", "cmd/protoc-gen-go/internal_gengo", "internal/encoding/tag", "internal/strs", "internal/editionssupport", "internal/version"}

func init() {
	register(&Property{
		ID:         "C40",
		Level:      "other",
		Technique:  "unordered-iteration classification over the generator packages + who-may-call rule on nondeterminism sources + determinism option at the raw-descriptor marshal site (static)",
		Explain:    "Decides structural necessary conditions of deterministic code generation: (1) every iteration over a Go map or a direct Message.Range/Map.Range in the generator packages (compiler/protogen, cmd/protoc-gen-go, internal_gengo, struct-tag and naming helpers) is commutative, collected-then-sorted before use by a comparator that cannot tie on distinct elements (it compares the unique iteration key or every component of the element), or only selects an error; (2) no generator function reads a source of run-to-run variation (clock, randomness, environment, pid, runtime introspection, %p); (3) the raw descriptor embedded in generated code is marshaled with Deterministic: true; (4) per-file generation (methods of *protogen.GeneratedFile) never writes plugin-wide state, so one file's bytes cannot depend on which files were generated before it.",
		NotCovered: "order dependence through state other than the Plugin struct (package-level variables are covered only by the nondeterminism-source rule), comparators that delegate to other functions or call methods on the element (not judged), and byte-identity of the response on concrete requests.",
		Quick:      all("./compiler/protogen", "./cmd/protoc-gen-go/..."),
		Thorough:   all("./..."),
		Run: func(c *Ctx) {
			c.ruleOrder("R-ORDER", generatorPkgs, orderOpts{Floor: 5, Exempt: map[string]string{
				"compiler/protogen.(*GeneratedFile).Content #1 comparator": "the compared component [1] is the map key itself passed through Options.ImportRewriteFunc; protoc-gen-go (the subject of C40) sets no ImportRewriteFunc, so [1] is the unique import path and no two elements tie",
				"compiler/protogen.(*GeneratedFile).Content #2 comparator": "same slice and comparator as #1: [1] is the unique import path when no ImportRewriteFunc is configured (protoc-gen-go configures none)",
			}})
			c.ruleGenFileIsolation("R-GEN-FILE-ISOLATION")
			c.ruleGenNondetSource("R-GEN-NONDET-SOURCE", generatorPkgs, 150)
			c.ruleGenDetMarshal("R-GEN-DET-MARSHAL", generatorPkgs, map[string]string{
				"compiler/protogen.run marshal #1":         "marshals the CodeGeneratorResponse itself: its schema has only scalar, string and repeated-message fields (no map fields, no extensions), and the fast path emits fields in field-number order in both modes",
				"compiler/protogen.Options.New marshal #1": "in-process re-marshal of the request's FileDescriptorProto that is immediately re-parsed with a resolver; the bytes never reach the output",
			}, 1)
		},
	})
}
