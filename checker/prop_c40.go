package main

var generatorPkgs = []string{"compiler/protogen", "cmd/protoc-gen-go", "cmd/protoc-gen-go/internal_gengo", "internal/encoding/tag", "internal/strs", "internal/editionssupport", "internal/version"}

func init() {
	register(&Property{
		ID:         "C40",
		Level:      "other",
		Technique:  "unordered-iteration classification over the generator packages + who-may-call rule on nondeterminism sources + determinism option at the raw-descriptor marshal site (static)",
		Explain:    "Decides structural necessary conditions of deterministic code generation: (1) every iteration over a Go map or a direct Message.Range/Map.Range in the generator packages (compiler/protogen, cmd/protoc-gen-go, internal_gengo, struct-tag and naming helpers) is commutative, collected-then-sorted before use, or only selects an error; (2) no generator function reads a source of run-to-run variation (clock, randomness, environment, pid, runtime introspection, %p); (3) the raw descriptor embedded in generated code is marshaled with Deterministic: true.",
		NotCovered: "independence of the order in which files are requested (slice order of the request), totality of sort comparators on equal keys, and byte-identity of the response on concrete requests.",
		Quick:      all("./compiler/protogen", "./cmd/protoc-gen-go/..."),
		Thorough:   all("./..."),
		Run: func(c *Ctx) {
			c.ruleOrder("R-ORDER", generatorPkgs, orderOpts{Floor: 5})
			c.ruleGenNondetSource("R-GEN-NONDET-SOURCE", generatorPkgs, 150)
			c.ruleGenDetMarshal("R-GEN-DET-MARSHAL", generatorPkgs, map[string]string{
				"compiler/protogen.run marshal #1":         "marshals the CodeGeneratorResponse itself: its schema has only scalar, string and repeated-message fields (no map fields, no extensions), and the fast path emits fields in field-number order in both modes",
				"compiler/protogen.Options.New marshal #1": "in-process re-marshal of the request's FileDescriptorProto that is immediately re-parsed with a resolver; the bytes never reach the output",
			}, 1)
		},
	})
}
