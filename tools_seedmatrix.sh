#!/bin/bash
# Development tool (not a registered check): run tools_seedone.sh over all (or
# the named) seeds in parallel and rewrite seeded/MATRIX.md.
set -u
cd /verif
# a private copy of the checker so that rebuilding bin/verifcheck during the run cannot disturb it
export VC=/tmp/vc-matrix-$$; cp bin/verifcheck "$VC"; trap 'rm -f "$VC"' EXIT
names=("$@"); [ ${#names[@]} -eq 0 ] && names=($(ls seeded | grep -E '^C[0-9]+-[0-9]+$' | sort -V))
printf '%s\n' "${names[@]}" | xargs -P ${MATRIX_P:-4} -n 1 ./tools_seedone.sh | sort -V
python3 - <<'PY'
import json,glob,os,re
rows=[]
for d in sorted(glob.glob('/verif/seeded/C*-*'),key=lambda s:[int(x) for x in re.findall(r'\d+',os.path.basename(s))]):
    mp=os.path.join(d,'meta.json')
    if not os.path.exists(mp): continue
    m=json.load(open(mp))
    rules=sorted(set(re.findall(r'(?:VIOLATED|UNDECIDED) (\S+)',"\n".join(m.get('check_report',[])))))
    rows.append((os.path.basename(d),m['property'],m.get('own_property_check',''),' '.join(m.get('caught_by',[])) or '-',' '.join(rules),m['breaks'][:140].replace('|','/').replace('\n',' ')))
with open('/verif/seeded/MATRIX.md','w') as f:
    f.write("# Seeded changes vs. checks (written by tools_seedmatrix.sh)\n\n| seed | property | own check | caught by | reporting rules | change |\n|---|---|---|---|---|---|\n")
    for r in rows: f.write("| %s | %s | %s | %s | %s | %s |\n"%r)
PY
