#!/bin/bash
# usage: tools_seedrun.sh <patch.diff> <Cnn> [tier]   (development tool)
# applies the patch to /repo, runs the check, and reverts the patch.
set -u
patch="$1"; prop="$2"; tier="${3:-quick}"
cd /repo || exit 2
if [ -n "$(git status --porcelain)" ]; then echo "repo dirty"; exit 2; fi
git apply "$patch" || { echo "apply failed"; exit 2; }
( export GOFLAGS=-mod=mod GOPROXY=off GOSUMDB=off GOTOOLCHAIN=local; go build ./... ) || echo "BUILD FAILED"
cd /verif && ./run.sh "$prop" "$tier" | cut -c1-700; rc=${PIPESTATUS[0]}
git -C /repo checkout -- . ; git -C /repo clean -fdq
# restore evidence of the unchanged tree
echo "exit=$rc"
