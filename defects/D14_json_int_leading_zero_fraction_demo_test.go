package protojson_test

import (
	"testing"

	"google.golang.org/protobuf/encoding/protojson"
	testpb "google.golang.org/protobuf/internal/testprotos/test"
)

func TestD14IntNotation(t *testing.T) {
	for _, tc := range []struct {
		in   string
		want uint64
	}{
		{`{"optionalUint64": 1e19}`, 10000000000000000000},
		{`{"optionalUint64": 0.1e20}`, 10000000000000000000},
		{`{"optionalUint64": 0.01e21}`, 10000000000000000000},
		{`{"optionalUint64": "0.01e21"}`, 10000000000000000000},
		{`{"optionalUint64": 0.000000000000000000001e21}`, 1},
		{`{"optionalUint64": 0.00000000000000000000000005e26}`, 5},
	} {
		m := &testpb.TestAllTypes{}
		if err := protojson.Unmarshal([]byte(tc.in), m); err != nil {
			t.Errorf("%s: %v", tc.in, err)
			continue
		}
		if m.GetOptionalUint64() != tc.want {
			t.Errorf("%s: got %d want %d", tc.in, m.GetOptionalUint64(), tc.want)
		}
	}
	for _, in := range []string{`{"optionalUint64": 0.1e21}`, `{"optionalUint64": 1e20}`, `{"optionalInt32": 0.1e11}`} {
		if err := protojson.Unmarshal([]byte(in), &testpb.TestAllTypes{}); err == nil {
			t.Errorf("%s: accepted, want out of range", in)
		}
	}
}
