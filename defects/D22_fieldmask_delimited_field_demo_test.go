package fieldmaskpb_test

import (
	"testing"

	testeditionspb "google.golang.org/protobuf/internal/testprotos/testeditions"
	testpb "google.golang.org/protobuf/internal/testprotos/test"
	"google.golang.org/protobuf/types/known/fieldmaskpb"
)

func TestD22DelimitedFieldPath(t *testing.T) {
	// proto2 group: named by its message name
	if _, err := fieldmaskpb.New((*testpb.TestAllTypes)(nil), "OptionalGroup"); err != nil {
		t.Errorf("proto2 group by message name: %v", err)
	}
	if _, err := fieldmaskpb.New((*testpb.TestAllTypes)(nil), "optionalgroup"); err == nil {
		t.Errorf("proto2 group by field name accepted")
	}
	// editions: a DELIMITED message field that is not group-like is an ordinary field
	for _, p := range []string{"not_group_like_delimited", "not_group_like_delimited.a"} {
		if _, err := fieldmaskpb.New((*testeditionspb.TestAllTypes)(nil), p); err != nil {
			t.Errorf("editions delimited field %q: %v", p, err)
		}
	}
}
