package proto_test

// Demonstration of defect D11 (place in /repo/proto/): before commit 9f6792d
// proto.Merge did not copy -0.0 of an implicit-presence float/double field,
// although the encoder marshals it and reflection reports it as set.

import (
	"math"
	"testing"

	test3pb "google.golang.org/protobuf/internal/testprotos/test3"
	"google.golang.org/protobuf/proto"
)

func TestD11MergeNegativeZero(t *testing.T) {
	negZero := float32(math.Copysign(0, -1))
	a := &test3pb.TestAllTypes{SingularFloat: 1.5, SingularDouble: 2.5}
	b := &test3pb.TestAllTypes{SingularFloat: negZero, SingularDouble: math.Copysign(0, -1)}
	ab, _ := proto.Marshal(a)
	bb, _ := proto.Marshal(b)
	want := &test3pb.TestAllTypes{}
	if err := proto.Unmarshal(append(ab, bb...), want); err != nil {
		t.Fatal(err)
	}
	got := proto.Clone(a).(*test3pb.TestAllTypes)
	proto.Merge(got, b)
	if math.Float32bits(got.SingularFloat) != math.Float32bits(want.SingularFloat) || math.Float64bits(got.SingularDouble) != math.Float64bits(want.SingularDouble) {
		t.Errorf("Merge(a, b) = (%v, %v), decode of Marshal(a)||Marshal(b) = (%v, %v)", got.SingularFloat, got.SingularDouble, want.SingularFloat, want.SingularDouble)
	}
}
