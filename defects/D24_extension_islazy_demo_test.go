package protodesc_test

import (
	"testing"

	"google.golang.org/protobuf/internal/filedesc"
	"google.golang.org/protobuf/proto"
	"google.golang.org/protobuf/reflect/protodesc"
	"google.golang.org/protobuf/reflect/protoregistry"
	"google.golang.org/protobuf/types/descriptorpb"
)

// D24: protodesc drops FieldOptions.lazy of an extension although the
// raw-descriptor builder promotes it (Extension.IsLazy).
func TestD24ExtensionIsLazy(t *testing.T) {
	fdp := &descriptorpb.FileDescriptorProto{
		Name:    proto.String("d24.proto"),
		Package: proto.String("d24"),
		Syntax:  proto.String("proto2"),
		MessageType: []*descriptorpb.DescriptorProto{{
			Name:           proto.String("M"),
			ExtensionRange: []*descriptorpb.DescriptorProto_ExtensionRange{{Start: proto.Int32(100), End: proto.Int32(200)}},
		}},
		Extension: []*descriptorpb.FieldDescriptorProto{{
			Name:     proto.String("x"),
			Number:   proto.Int32(100),
			Label:    descriptorpb.FieldDescriptorProto_LABEL_OPTIONAL.Enum(),
			Type:     descriptorpb.FieldDescriptorProto_TYPE_MESSAGE.Enum(),
			TypeName: proto.String(".d24.M"),
			Extendee: proto.String(".d24.M"),
			Options:  &descriptorpb.FieldOptions{Lazy: proto.Bool(true)},
		}},
	}
	raw, err := proto.Marshal(fdp)
	if err != nil {
		t.Fatal(err)
	}
	want, err := protodesc.NewFile(fdp, nil)
	if err != nil {
		t.Fatal(err)
	}
	got := filedesc.Builder{RawDescriptor: raw, NumMessages: 1, NumExtensions: 1, FileRegistry: new(protoregistry.Files)}.Build().File
	type lazy interface{ IsLazy() bool }
	g := got.Extensions().Get(0).(lazy).IsLazy()
	w := want.Extensions().Get(0).(lazy).IsLazy()
	if g != w {
		t.Errorf("IsLazy() = %v from filedesc.Builder, %v from protodesc.NewFile", g, w)
	}
}
