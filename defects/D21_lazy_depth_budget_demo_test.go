package impl_test

import (
	"testing"

	"google.golang.org/protobuf/encoding/protowire"
	"google.golang.org/protobuf/internal/impl"
	"google.golang.org/protobuf/proto"

	testopaquepb "google.golang.org/protobuf/internal/testprotos/testeditions/testeditions_opaque"
)

// optional_lazy_nested_message (24) { corecursive (2) { optional_nested_message (18) { corecursive (2) {...}}}}
func nest(levels int) []byte {
	var b []byte // innermost TestAllTypes: empty
	for i := 0; i < levels; i++ {
		// NestedMessage{corecursive: b}
		nm := protowire.AppendTag(nil, 2, protowire.BytesType)
		nm = protowire.AppendBytes(nm, b)
		// TestAllTypes{optional_nested_message: nm}
		b = protowire.AppendTag(nil, 18, protowire.BytesType)
		b = protowire.AppendBytes(b, nm)
	}
	return b
}

func depthOf(m *testopaquepb.TestAllTypes) int {
	d := 0
	for m != nil && m.HasOptionalNestedMessage() {
		d++
		m = m.GetOptionalNestedMessage().GetCorecursive()
	}
	return d
}

func TestD21LazyDepth(t *testing.T) {
	impl.EnableLazyUnmarshal(true)
	defer impl.EnableLazyUnmarshal(false)
	const levels = 6000
	inner := nest(levels)
	nm := protowire.AppendTag(nil, 2, protowire.BytesType)
	nm = protowire.AppendBytes(nm, inner)
	in := protowire.AppendTag(nil, 24, protowire.BytesType)
	in = protowire.AppendBytes(in, nm)
	for _, noLazy := range []bool{true, false} {
		m := &testopaquepb.TestAllTypes{}
		if err := (proto.UnmarshalOptions{RecursionLimit: 100000, NoLazyDecoding: noLazy}).Unmarshal(in, m); err != nil {
			t.Fatalf("NoLazyDecoding=%v: %v", noLazy, err)
		}
		got := depthOf(m.GetOptionalLazyNestedMessage().GetCorecursive())
		if got != levels {
			t.Errorf("NoLazyDecoding=%v: decoded depth %d, want %d", noLazy, got, levels)
		}
	}
}
