package proto_test

import (
	"bytes"
	"compress/gzip"
	"testing"

	"google.golang.org/protobuf/proto"
	"google.golang.org/protobuf/runtime/protoimpl"
	"google.golang.org/protobuf/types/descriptorpb"
)

// A{ B b = 1; R r = 2 }   B{ A a = 1 }   R{ required int32 x = 1 }
type d10A struct {
	B *d10B `protobuf:"bytes,1,opt,name=b"`
	R *d10R `protobuf:"bytes,2,opt,name=r"`
}
type d10B struct {
	A *d10A `protobuf:"bytes,1,opt,name=a"`
}
type d10R struct {
	X *int32 `protobuf:"varint,1,req,name=x"`
}

func (m *d10A) Reset()         { *m = d10A{} }
func (m *d10A) String() string { return "d10A" }
func (*d10A) ProtoMessage()    {}
func (*d10A) Descriptor() ([]byte, []int) { return d10RawDesc, []int{0} }
func (m *d10B) Reset()         { *m = d10B{} }
func (m *d10B) String() string { return "d10B" }
func (*d10B) ProtoMessage()    {}
func (*d10B) Descriptor() ([]byte, []int) { return d10RawDesc, []int{1} }
func (m *d10R) Reset()         { *m = d10R{} }
func (m *d10R) String() string { return "d10R" }
func (*d10R) ProtoMessage()    {}
func (*d10R) Descriptor() ([]byte, []int) { return d10RawDesc, []int{2} }

var d10RawDesc = func() []byte {
	msgField := func(name string, num int32, typ string) *descriptorpb.FieldDescriptorProto {
		return &descriptorpb.FieldDescriptorProto{Name: proto.String(name), JsonName: proto.String(name), Number: proto.Int32(num),
			Label: descriptorpb.FieldDescriptorProto_LABEL_OPTIONAL.Enum(), Type: descriptorpb.FieldDescriptorProto_TYPE_MESSAGE.Enum(), TypeName: proto.String(typ)}
	}
	fd := &descriptorpb.FileDescriptorProto{
		Name: proto.String("d10_demo.proto"), Package: proto.String("d10"), Syntax: proto.String("proto2"),
		MessageType: []*descriptorpb.DescriptorProto{
			{Name: proto.String("A"), Field: []*descriptorpb.FieldDescriptorProto{msgField("b", 1, ".d10.B"), msgField("r", 2, ".d10.R")}},
			{Name: proto.String("B"), Field: []*descriptorpb.FieldDescriptorProto{msgField("a", 1, ".d10.A")}},
			{Name: proto.String("R"), Field: []*descriptorpb.FieldDescriptorProto{{Name: proto.String("x"), JsonName: proto.String("x"), Number: proto.Int32(1),
				Label: descriptorpb.FieldDescriptorProto_LABEL_REQUIRED.Enum(), Type: descriptorpb.FieldDescriptorProto_TYPE_INT32.Enum()}}},
		},
	}
	raw, err := proto.Marshal(fd)
	if err != nil {
		panic(err)
	}
	var buf bytes.Buffer
	zw := gzip.NewWriter(&buf)
	zw.Write(raw)
	zw.Close()
	return buf.Bytes()
}()

func TestD10CycleInitCheck(t *testing.T) {
	// a.b.a.r is present but lacks its required field x
	m := &d10A{B: &d10B{A: &d10A{R: &d10R{}}}}
	mv2 := protoimpl.X.ProtoMessageV2Of(m)
	if err := proto.CheckInitialized(mv2); err == nil {
		t.Errorf("CheckInitialized(A{b:{a:{r:{}}}}) = nil, want required-field error")
	}
	if _, err := proto.Marshal(mv2); err == nil {
		t.Errorf("Marshal(A{b:{a:{r:{}}}}) = nil error, want required-field error")
	}
	// control: same shape one level up is detected
	m2 := &d10A{R: &d10R{}}
	if err := proto.CheckInitialized(protoimpl.X.ProtoMessageV2Of(m2)); err == nil {
		t.Errorf("control: CheckInitialized(A{r:{}}) = nil")
	}
	// wire: 0a 04 0a 02 12 00  = b:{a:{r:{}}}
	out := protoimpl.X.ProtoMessageV2Of(&d10A{})
	if err := proto.Unmarshal([]byte{0x0a, 0x04, 0x0a, 0x02, 0x12, 0x00}, out); err == nil {
		t.Errorf("Unmarshal(b:{a:{r:{}}}) = nil error, want required-field error")
	}
}
