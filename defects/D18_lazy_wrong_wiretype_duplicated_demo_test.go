package impl_test

import (
	"bytes"
	"testing"

	"google.golang.org/protobuf/proto"

	lazyopaquepb "google.golang.org/protobuf/internal/testprotos/lazy/lazy_opaque"
	lazypb "google.golang.org/protobuf/internal/testprotos/lazy"
)

func TestD18LazyWrongWireType(t *testing.T) {
	// nested{int32:1} (field 99, bytes) followed by field 99 with the varint wire type
	in := []byte{0x9a, 0x06, 0x02, 0x08, 0x01, 0x98, 0x06, 0x05}
	open := &lazypb.Node{}
	if err := proto.Unmarshal(in, open); err != nil {
		t.Fatal(err)
	}
	want, _ := proto.Marshal(open)
	op := &lazyopaquepb.Node{}
	if err := proto.Unmarshal(in, op); err != nil {
		t.Fatal(err)
	}
	got, err := proto.Marshal(op)
	if err != nil {
		t.Fatal(err)
	}
	t.Logf("open   %x\nopaque %x (Size %d)", want, got, proto.Size(op))
	if !bytes.Equal(got, want) {
		t.Errorf("opaque (lazy) re-marshal differs from the open API: %x vs %x", got, want)
	}
	det, _ := proto.MarshalOptions{Deterministic: true}.Marshal(op)
	t.Logf("deterministic %x", det)
}

func TestD18LazyWrongWireTypeBetweenOccurrences(t *testing.T) {
	// nested{int32:1}, field 99 as varint 5, nested{int64:2}, then field 1
	in := []byte{0x9a, 0x06, 0x02, 0x08, 0x01, 0x98, 0x06, 0x05, 0x9a, 0x06, 0x02, 0x10, 0x02, 0x08, 0x07}
	open := &lazypb.Node{}
	if err := proto.Unmarshal(in, open); err != nil {
		t.Fatal(err)
	}
	op := &lazyopaquepb.Node{}
	if err := proto.Unmarshal(in, op); err != nil {
		t.Fatal(err)
	}
	got, err := proto.Marshal(op)
	if err != nil {
		t.Fatal(err)
	}
	if proto.Size(op) != len(got) {
		t.Errorf("Size %d != len %d", proto.Size(op), len(got))
	}
	back := &lazypb.Node{}
	if err := proto.Unmarshal(got, back); err != nil {
		t.Fatal(err)
	}
	if !proto.Equal(back, open) {
		t.Errorf("re-marshaled lazy message decodes to %v, eager decode of the input gives %v (bytes %x)", back, open, got)
	}
	// after access
	_ = op.GetNested().GetInt32()
	got2, _ := proto.MarshalOptions{Deterministic: true}.Marshal(op)
	want2, _ := proto.MarshalOptions{Deterministic: true}.Marshal(open)
	if !bytes.Equal(got2, want2) {
		t.Errorf("after access: %x vs %x", got2, want2)
	}
}
