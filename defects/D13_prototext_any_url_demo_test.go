package prototext_test

import (
	"testing"

	"google.golang.org/protobuf/encoding/prototext"
	"google.golang.org/protobuf/proto"
	"google.golang.org/protobuf/types/known/anypb"
	"google.golang.org/protobuf/types/known/durationpb"
)

func TestD13AnyURL(t *testing.T) {
	for _, url := range []string{"type.googleapis.com/google.protobuf.Duration", "http://example.com/google.protobuf.Duration", "my host/google.protobuf.Duration", "a@b/google.protobuf.Duration", "x/y?z/google.protobuf.Duration"} {
		b, _ := proto.Marshal(&durationpb.Duration{Seconds: 5})
		m := &anypb.Any{TypeUrl: url, Value: b}
		out, err := prototext.Marshal(m)
		if err != nil {
			t.Errorf("%q: marshal: %v", url, err)
			continue
		}
		m2 := &anypb.Any{}
		if err := prototext.Unmarshal(out, m2); err != nil {
			t.Errorf("%q: output %q does not parse: %v", url, out, err)
			continue
		}
		if !proto.Equal(m, m2) {
			t.Errorf("%q: round trip differs: %q -> %v", url, out, m2)
		}
	}
}
