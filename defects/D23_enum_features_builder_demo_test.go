package filedesc_test

import (
	"testing"

	"google.golang.org/protobuf/internal/filedesc"
	"google.golang.org/protobuf/proto"
	"google.golang.org/protobuf/reflect/protodesc"
	"google.golang.org/protobuf/reflect/protoreflect"
	"google.golang.org/protobuf/reflect/protoregistry"
	"google.golang.org/protobuf/types/descriptorpb"
)

// D23: the raw-descriptor builder ignores EnumOptions.features, so an enum
// that declares `option features.enum_type = CLOSED;` in an editions file is
// reported open by descriptors of generated code and closed by protodesc.
func TestD23EnumLevelFeatures(t *testing.T) {
	fdp := &descriptorpb.FileDescriptorProto{
		Name:    proto.String("d23.proto"),
		Package: proto.String("d23"),
		Syntax:  proto.String("editions"),
		Edition: descriptorpb.Edition_EDITION_2023.Enum(),
		EnumType: []*descriptorpb.EnumDescriptorProto{{
			Name:    proto.String("E"),
			Value:   []*descriptorpb.EnumValueDescriptorProto{{Name: proto.String("A"), Number: proto.Int32(0)}},
			Options: &descriptorpb.EnumOptions{Features: &descriptorpb.FeatureSet{EnumType: descriptorpb.FeatureSet_CLOSED.Enum()}},
		}},
		MessageType: []*descriptorpb.DescriptorProto{{
			Name: proto.String("M"),
			EnumType: []*descriptorpb.EnumDescriptorProto{{
				Name:    proto.String("N"),
				Value:   []*descriptorpb.EnumValueDescriptorProto{{Name: proto.String("B"), Number: proto.Int32(0)}},
				Options: &descriptorpb.EnumOptions{Features: &descriptorpb.FeatureSet{EnumType: descriptorpb.FeatureSet_CLOSED.Enum()}},
			}},
		}},
	}
	raw, err := proto.Marshal(fdp)
	if err != nil {
		t.Fatal(err)
	}
	want, err := protodesc.NewFile(fdp, nil)
	if err != nil {
		t.Fatal(err)
	}
	got := filedesc.Builder{RawDescriptor: raw, NumEnums: 2, NumMessages: 1, FileRegistry: new(protoregistry.Files)}.Build().File
	for _, name := range []protoreflect.FullName{"d23.E", "d23.M.N"} {
		find := func(fd protoreflect.FileDescriptor) protoreflect.EnumDescriptor {
			if name == "d23.E" {
				return fd.Enums().ByName("E")
			}
			return fd.Messages().ByName("M").Enums().ByName("N")
		}
		if g, w := find(got).IsClosed(), find(want).IsClosed(); g != w {
			t.Errorf("%v: IsClosed() = %v from filedesc.Builder, %v from protodesc.NewFile", name, g, w)
		}
	}
}
