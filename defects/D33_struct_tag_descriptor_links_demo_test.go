package impl_test

import (
	"reflect"
	"testing"

	"google.golang.org/protobuf/internal/impl"
	"google.golang.org/protobuf/reflect/protoreflect"
)

type d33Message struct {
	U  isD33U           `protobuf_oneof:"u"`
	F1 *int32           `protobuf:"varint,11,opt,name=f1"`
	F2 *int32           `protobuf:"varint,12,opt,name=f2"`
	F3 *int32           `protobuf:"varint,13,opt,name=f3"`
	F4 *int32           `protobuf:"varint,14,opt,name=f4"`
	F5 *int32           `protobuf:"varint,15,opt,name=f5"`
	M1 map[string]int32 `protobuf:"bytes,21,rep,name=m1" protobuf_key:"bytes,1,opt,name=key" protobuf_val:"varint,2,opt,name=value"`
	M2 map[string]int32 `protobuf:"bytes,22,rep,name=m2" protobuf_key:"bytes,1,opt,name=key" protobuf_val:"varint,2,opt,name=value"`
	V  isD33V           `protobuf_oneof:"v"`
}

type isD33U interface{ isD33U() }
type isD33V interface{ isD33V() }
type d33A struct {
	A int32 `protobuf:"varint,1,opt,name=a,oneof"`
}
type d33B struct {
	B int32 `protobuf:"varint,2,opt,name=b,oneof"`
}
type d33C struct {
	C int32 `protobuf:"varint,3,opt,name=c,oneof"`
}
type d33D struct {
	D int32 `protobuf:"varint,4,opt,name=d,oneof"`
}

func (*d33A) isD33U() {}
func (*d33B) isD33U() {}
func (*d33C) isD33U() {}
func (*d33D) isD33V() {}

func (*d33Message) Reset()         {}
func (*d33Message) String() string { return "" }
func (*d33Message) ProtoMessage()  {}
func (*d33Message) XXX_OneofWrappers() []any {
	return []any{(*d33A)(nil), (*d33B)(nil), (*d33C)(nil), (*d33D)(nil)}
}

// D33: the struct-tag loader keeps pointers to elements of the field, oneof
// and nested-message lists while it is still appending to those lists. After a
// reallocation the links (oneof -> fields, field -> containing oneof, map
// field -> entry message) point at stale copies, which are not the descriptors
// the message's own lists hand out.
func TestD33StructTagDescriptorLinks(t *testing.T) {
	md := impl.LegacyLoadMessageDesc(reflect.TypeOf(&d33Message{}))
	for i := 0; i < md.Oneofs().Len(); i++ {
		od := md.Oneofs().Get(i)
		for j := 0; j < od.Fields().Len(); j++ {
			fd := od.Fields().Get(j)
			if own := md.Fields().ByNumber(fd.Number()); own != fd {
				t.Errorf("oneof %v: member %v is not the descriptor md.Fields() hands out", od.Name(), fd.Name())
			}
			if fd.ContainingOneof() != od {
				t.Errorf("field %v: ContainingOneof() is not md.Oneofs().Get(%d)", fd.Name(), i)
			}
		}
	}
	for i := 0; i < md.Fields().Len(); i++ {
		fd := md.Fields().Get(i)
		if fd.IsMap() && fd.Message() != md.Messages().ByName(fd.Message().Name()) {
			t.Errorf("map field %v: Message() is not the entry message md.Messages() hands out", fd.Name())
		}
	}
	// the observable consequence: WhichOneof returns a descriptor Get rejects
	m := impl.Export{}.ProtoMessageV2Of(&d33Message{U: &d33B{B: 5}}).ProtoReflect()
	fd := m.WhichOneof(md.Oneofs().ByName("u"))
	if fd == nil {
		t.Fatal("WhichOneof(u) = nil")
	}
	func() {
		defer func() {
			if r := recover(); r != nil {
				t.Errorf("Get(WhichOneof(u)) panics: %v", r)
			}
		}()
		if got := m.Get(fd).Int(); got != 5 {
			t.Errorf("Get(WhichOneof(u)) = %d, want 5", got)
		}
	}()
	var _ protoreflect.Message = m
}
