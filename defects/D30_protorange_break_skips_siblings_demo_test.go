package protorange_test

import (
	"testing"

	"google.golang.org/protobuf/reflect/protopath"
	"google.golang.org/protobuf/reflect/protorange"

	newspb "google.golang.org/protobuf/internal/testprotos/news"
)

// D30: Break is documented as "breaks traversal of children in the current
// value. It has no effect when traversing values that are not composite
// types". Returned for a scalar list element it nevertheless ends the
// iteration over the remaining elements (and, for a field, over the remaining
// fields and the unknown fields of the enclosing message).
func TestD30BreakSkipsSiblings(t *testing.T) {
	m := &newspb.Article{Tags: []string{"a", "b"}, Status: newspb.Article_PUBLISHED}
	var visited []string
	err := protorange.Options{Stable: true}.Range(m.ProtoReflect(), func(p protopath.Values) error {
		s := p.Path[1:].String()
		visited = append(visited, s)
		if s == ".tags[0]" {
			return protorange.Break // a scalar: no children to skip
		}
		return nil
	}, nil)
	if err != nil {
		t.Fatal(err)
	}
	want := map[string]bool{".tags[1]": true, ".status": true}
	for _, s := range visited {
		delete(want, s)
	}
	for s := range want {
		t.Errorf("%v was not visited after Break at the scalar .tags[0]; visited %q", s, visited)
	}
}
