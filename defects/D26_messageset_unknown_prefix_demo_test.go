package proto_test

import (
	"testing"

	"google.golang.org/protobuf/internal/flags"
	"google.golang.org/protobuf/proto"
	"google.golang.org/protobuf/types/dynamicpb"

	messagesetpb "google.golang.org/protobuf/internal/testprotos/messageset/messagesetpb"
)

// D26 (needs -tags protolegacy): an unknown MessageSet item whose message
// subfield has a non-minimally encoded length prefix is stored with the
// input's prefix by the table-driven decoder and with a minimal prefix by the
// reflective decoder, so the two decoded messages differ in their unknown
// fields, in Size and in Marshal output.
func TestD26MessageSetUnknownItemLengthPrefix(t *testing.T) {
	if !flags.ProtoLegacy {
		t.Skip("needs -tags protolegacy")
	}
	// item { type_id: 9193  message: <2 bytes, length encoded as 82 00> }
	in := []byte{0x0b, 0x10, 0xe9, 0x47, 0x1a, 0x82, 0x00, 0x08, 0x0a, 0x0c}
	fast := &messagesetpb.MessageSet{}
	if err := proto.Unmarshal(in, fast); err != nil {
		t.Fatal(err)
	}
	refl := dynamicpb.NewMessage(fast.ProtoReflect().Descriptor())
	if err := proto.Unmarshal(in, refl); err != nil {
		t.Fatal(err)
	}
	if fs, rs := proto.Size(fast), proto.Size(refl); fs != rs {
		t.Errorf("Size: fast path %d, reflection path %d", fs, rs)
	}
	fu, ru := fast.ProtoReflect().GetUnknown(), refl.ProtoReflect().GetUnknown()
	if string(fu) != string(ru) {
		t.Errorf("unknown fields: fast path %x, reflection path %x", fu, ru)
	}
	fb, _ := proto.MarshalOptions{Deterministic: true}.Marshal(fast)
	rb, _ := proto.MarshalOptions{Deterministic: true}.Marshal(refl)
	if string(fb) != string(rb) {
		t.Errorf("Marshal: fast path %x, reflection path %x", fb, rb)
	}
}
