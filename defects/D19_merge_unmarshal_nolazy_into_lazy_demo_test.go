package impl_test

import (
	"testing"

	"google.golang.org/protobuf/proto"

	lazyopaquepb "google.golang.org/protobuf/internal/testprotos/lazy/lazy_opaque"
)

func TestD19MergeUnmarshalNoLazyIntoLazy(t *testing.T) {
	b1, _ := proto.Marshal(lazyopaquepb.Node_builder{Nested: lazyopaquepb.Node_builder{Int32: proto.Int32(5)}.Build()}.Build())
	b2, _ := proto.Marshal(lazyopaquepb.Node_builder{Nested: lazyopaquepb.Node_builder{Int64: proto.Int64(6)}.Build()}.Build())
	for _, noLazy := range []bool{false, true} {
		m := &lazyopaquepb.Node{}
		if err := proto.Unmarshal(b1, m); err != nil {
			t.Fatal(err)
		}
		if err := (proto.UnmarshalOptions{Merge: true, NoLazyDecoding: noLazy}).Unmarshal(b2, m); err != nil {
			t.Fatal(err)
		}
		n := m.GetNested()
		if !n.HasInt32() || !n.HasInt64() || n.GetInt32() != 5 || n.GetInt64() != 6 {
			t.Errorf("NoLazyDecoding=%v: merged nested = {int32 set=%v %d, int64 set=%v %d}, want both set (5, 6)", noLazy, n.HasInt32(), n.GetInt32(), n.HasInt64(), n.GetInt64())
		}
	}
}
