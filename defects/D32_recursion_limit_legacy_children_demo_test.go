package proto_test

import (
	"testing"

	"google.golang.org/protobuf/encoding/protowire"
	"google.golang.org/protobuf/internal/impl"
	"google.golang.org/protobuf/proto"
	"google.golang.org/protobuf/types/dynamicpb"

	legacypb "google.golang.org/protobuf/internal/testprotos/legacy/proto3_20180814_aa810b61"
)

// D32: messages without a fast-path MessageInfo (here: children of a legacy
// generated message) are decoded by calling back into package proto with
// options that do not carry the remaining recursion depth, so the limit starts
// over at the default for every such child: UnmarshalOptions.RecursionLimit is
// not enforced, and the nesting depth of an input is unbounded.
func TestD32RecursionLimitAcrossLegacyChildren(t *testing.T) {
	// 40 levels: Message.optional_child_message (116) -> ChildMessage.f3 (3) -> Message ...
	var b []byte
	for i := 0; i < 40; i++ {
		num := protowire.Number(116)
		if i%2 == 0 {
			num = 3
		}
		b = append(protowire.AppendTag(nil, num, protowire.BytesType), protowire.AppendBytes(nil, b)...)
	}
	m := impl.Export{}.ProtoMessageV2Of(new(legacypb.Message))
	opts := proto.UnmarshalOptions{RecursionLimit: 5}
	errLegacy := opts.Unmarshal(b, m)
	errDynamic := opts.Unmarshal(b, dynamicpb.NewMessage(m.ProtoReflect().Descriptor()))
	if errDynamic == nil {
		t.Fatal("dynamicpb accepted 40 levels with RecursionLimit 5")
	}
	if errLegacy == nil {
		t.Errorf("legacy message accepted 40 nested levels with RecursionLimit 5; dynamicpb of the same descriptor reports: %v", errDynamic)
	}
}
