// Copyright 2024 The Go Authors. All rights reserved.
// Use of this source code is governed by a BSD-style
// license that can be found in the LICENSE file.

package protogen

import (
	"testing"

	"google.golang.org/protobuf/proto"
	"google.golang.org/protobuf/types/descriptorpb"
	"google.golang.org/protobuf/types/pluginpb"
)

// D17-style finding D27: in the Opaque (and Hybrid) API a oneof and a field
// whose names camel-case to the same identifier both get HasFoo and ClearFoo:
// the generated message does not compile.
func TestD27OneofAndFieldWithEqualCamelCase(t *testing.T) {
	optional := descriptorpb.FieldDescriptorProto_LABEL_OPTIONAL.Enum()
	field := func(name string, num int32, typ descriptorpb.FieldDescriptorProto_Type, typeName string) *descriptorpb.FieldDescriptorProto {
		fd := &descriptorpb.FieldDescriptorProto{
			Name:     proto.String(name),
			Number:   proto.Int32(num),
			Label:    optional,
			Type:     typ.Enum(),
			JsonName: proto.String(name),
		}
		if typeName != "" {
			fd.TypeName = proto.String(typeName)
		}
		return fd
	}
	msgType := descriptorpb.FieldDescriptorProto_TYPE_MESSAGE
	boolType := descriptorpb.FieldDescriptorProto_TYPE_BOOL
	int32Type := descriptorpb.FieldDescriptorProto_TYPE_INT32

	oneofMember := field("a", 1, int32Type, "")
	oneofMember.OneofIndex = proto.Int32(0)
	_, _ = msgType, boolType

	req := &pluginpb.CodeGeneratorRequest{
		Parameter: proto.String("default_api_level=API_OPAQUE"),
		ProtoFile: []*descriptorpb.FileDescriptorProto{{
			Name:    proto.String("d27/clash.proto"),
			Syntax:  proto.String("proto2"),
			Package: proto.String("d27.clash"),
			Options: &descriptorpb.FileOptions{
				GoPackage: proto.String("example.com/d27/clash"),
			},
			MessageType: []*descriptorpb.DescriptorProto{{
				// message C { oneof foo { int32 a = 1; } optional int32 Foo = 2; }
				Name: proto.String("C"),
				Field: []*descriptorpb.FieldDescriptorProto{
					oneofMember,
					field("Foo", 2, int32Type, ""),
				},
				OneofDecl: []*descriptorpb.OneofDescriptorProto{{
					Name: proto.String("foo"),
				}},
			}},
		}},
		FileToGenerate: []string{"d27/clash.proto"},
	}
	gen, err := Options{}.New(req)
	if err != nil {
		t.Fatal(err)
	}
	for _, m := range gen.Files[0].Messages {
		used := map[string]string{} // member name -> what it is
		add := func(name, what string) {
			if name == "" {
				return
			}
			if prev, ok := used[name]; ok {
				t.Errorf("message %v: identifier %q is used for both %v and %v", m.Desc.Name(), name, prev, what)
				return
			}
			used[name] = what
		}
		for _, o := range m.Oneofs {
			add(o.GoName, "struct field for oneof "+string(o.Desc.Name()))
			for _, method := range []string{"Has", "Clear", "Which"} {
				add(o.MethodName(method), method+" method of oneof "+string(o.Desc.Name()))
			}
		}
		for _, f := range m.Fields {
			if f.Oneof == nil {
				add(f.GoName, "struct field for "+string(f.Desc.Name()))
			}
			methods := []string{"Get", "Set"}
			if f.Desc.HasPresence() {
				methods = append(methods, "Has", "Clear")
			}
			for _, method := range methods {
				name, compat := f.MethodName(method)
				add(name, method+" method of field "+string(f.Desc.Name()))
				add(compat, "compat "+method+" method of field "+string(f.Desc.Name()))
			}
		}
	}
}

// D28/D29: acknowledged in comments of newMessage ("This is incorrect, but
// fixing it breaks existing code"): (D28) the Open API emits Get<Oneof>() but
// the oneof is registered as having no getter, so a field named get_<oneof>
// becomes a struct field with the name of that method; (D29) oneof wrapper
// type names are made unique against nested messages and enums but not against
// each other.
func TestD28D29OpenAPINameClashes(t *testing.T) {
	optional := descriptorpb.FieldDescriptorProto_LABEL_OPTIONAL.Enum()
	int32Type := descriptorpb.FieldDescriptorProto_TYPE_INT32.Enum()
	member := func(name string, num int32) *descriptorpb.FieldDescriptorProto {
		return &descriptorpb.FieldDescriptorProto{Name: proto.String(name), Number: proto.Int32(num), Label: optional, Type: int32Type, JsonName: proto.String(name), OneofIndex: proto.Int32(0)}
	}
	req := &pluginpb.CodeGeneratorRequest{
		ProtoFile: []*descriptorpb.FileDescriptorProto{{
			Name:    proto.String("d28/clash.proto"),
			Syntax:  proto.String("proto2"),
			Package: proto.String("d28.clash"),
			Options: &descriptorpb.FileOptions{GoPackage: proto.String("example.com/d28/clash")},
			MessageType: []*descriptorpb.DescriptorProto{{
				// message A { oneof foo { int32 a = 1; } optional int32 get_foo = 2; }
				Name: proto.String("A"),
				Field: []*descriptorpb.FieldDescriptorProto{
					member("a", 1),
					{Name: proto.String("get_foo"), Number: proto.Int32(2), Label: optional, Type: int32Type, JsonName: proto.String("getFoo")},
				},
				OneofDecl: []*descriptorpb.OneofDescriptorProto{{Name: proto.String("foo")}},
			}, {
				// message E { oneof o { int32 foo = 1; int32 foo_ = 2; } message Foo {} }
				Name:       proto.String("E"),
				Field:      []*descriptorpb.FieldDescriptorProto{member("foo", 1), member("foo_", 2)},
				OneofDecl:  []*descriptorpb.OneofDescriptorProto{{Name: proto.String("o")}},
				NestedType: []*descriptorpb.DescriptorProto{{Name: proto.String("Foo")}},
			}},
		}},
		FileToGenerate: []string{"d28/clash.proto"},
	}
	gen, err := Options{}.New(req)
	if err != nil {
		t.Fatal(err)
	}
	for _, m := range gen.Files[0].Messages {
		members := map[string]string{}
		add := func(set map[string]string, name, what string) {
			if prev, ok := set[name]; ok {
				t.Errorf("message %v: identifier %q is used for both %v and %v", m.Desc.Name(), name, prev, what)
				return
			}
			set[name] = what
		}
		types := map[string]string{}
		for _, n := range m.Messages {
			add(types, n.GoIdent.GoName, "nested message "+string(n.Desc.Name()))
		}
		for _, o := range m.Oneofs {
			add(members, o.GoName, "struct field of oneof "+string(o.Desc.Name()))
			add(members, "Get"+o.GoName, "getter of oneof "+string(o.Desc.Name()))
		}
		for _, f := range m.Fields {
			if f.Oneof == nil {
				add(members, f.GoName, "struct field of "+string(f.Desc.Name()))
			} else {
				add(types, f.GoIdent.GoName, "wrapper type of "+string(f.Desc.Name()))
			}
			add(members, "Get"+f.GoName, "getter of "+string(f.Desc.Name()))
		}
	}
}
