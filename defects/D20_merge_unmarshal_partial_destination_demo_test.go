package proto_test

import (
	"testing"

	"google.golang.org/protobuf/proto"
	"google.golang.org/protobuf/types/dynamicpb"

	testpb "google.golang.org/protobuf/internal/testprotos/test"
)

func TestD20MergeUnmarshalIntoPartial(t *testing.T) {
	wire, err := proto.Marshal(&testpb.TestRequiredForeign{OptionalMessage: &testpb.TestRequired{RequiredField: proto.Int32(1)}})
	if err != nil {
		t.Fatal(err)
	}
	// generated message (fast path)
	m := &testpb.TestRequiredForeign{RepeatedMessage: []*testpb.TestRequired{{}}}
	err = proto.UnmarshalOptions{Merge: true}.Unmarshal(wire, m)
	if cerr := proto.CheckInitialized(m); (err == nil) != (cerr == nil) {
		t.Errorf("generated: Unmarshal(Merge) error = %v, but CheckInitialized of the result = %v", err, cerr)
	}
	// dynamic message (reflection path)
	d := dynamicpb.NewMessage(m.ProtoReflect().Descriptor())
	part, _ := proto.MarshalOptions{AllowPartial: true}.Marshal(&testpb.TestRequiredForeign{RepeatedMessage: []*testpb.TestRequired{{}}})
	if err := (proto.UnmarshalOptions{AllowPartial: true}).Unmarshal(part, d); err != nil {
		t.Fatal(err)
	}
	err = proto.UnmarshalOptions{Merge: true}.Unmarshal(wire, d)
	if cerr := proto.CheckInitialized(d); (err == nil) != (cerr == nil) {
		t.Errorf("dynamic: Unmarshal(Merge) error = %v, but CheckInitialized of the result = %v", err, cerr)
	}
}
