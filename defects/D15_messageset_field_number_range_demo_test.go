package proto_test

import (
	"testing"

	"google.golang.org/protobuf/encoding/protowire"
	"google.golang.org/protobuf/internal/flags"
	"google.golang.org/protobuf/proto"

	messagesetpb "google.golang.org/protobuf/internal/testprotos/messageset/messagesetpb"
	testpb "google.golang.org/protobuf/internal/testprotos/test"
)

func TestD15MessageSetFieldNumberRange(t *testing.T) {
	if !flags.ProtoLegacy {
		t.Skip("needs protolegacy")
	}
	// A record whose field number is MaxValidNumber+1: malformed wire data.
	bad := protowire.AppendVarint(nil, uint64(protowire.MaxValidNumber+1)<<3|uint64(protowire.VarintType))
	bad = protowire.AppendVarint(bad, 0)
	if err := proto.Unmarshal(bad, &testpb.TestAllTypes{}); err == nil {
		t.Fatalf("ordinary message accepted an out-of-range field number")
	}
	// top level of a MessageSet
	if err := proto.Unmarshal(bad, &messagesetpb.MessageSet{}); err == nil {
		t.Errorf("MessageSet: out-of-range field number accepted at top level")
	}
	// inside an item
	item := protowire.AppendTag(nil, 1, protowire.StartGroupType)
	item = protowire.AppendTag(item, 2, protowire.VarintType)
	item = protowire.AppendVarint(item, 1000)
	item = append(item, bad...)
	item = protowire.AppendTag(item, 3, protowire.BytesType)
	item = protowire.AppendVarint(item, 0)
	item = protowire.AppendTag(item, 1, protowire.EndGroupType)
	if err := proto.Unmarshal(item, &messagesetpb.MessageSet{}); err == nil {
		t.Errorf("MessageSet: out-of-range field number accepted inside an item")
	}
}
