package impl_test

import (
	"reflect"
	"testing"

	"google.golang.org/protobuf/internal/impl"
)

type d31Enum int32

type d31Message struct {
	E *d31Enum `protobuf:"varint,1,opt,name=e,enum=d31.Enum,def=2"`
}

func (*d31Message) Reset()         {}
func (*d31Message) String() string { return "" }
func (*d31Message) ProtoMessage()  {}

// D31: for a struct-tag-only message the default of an enum field is written
// in the tag as a number (def=2). The enum has no descriptor, so the values are
// placeholders whose Number() is 0, and defval.Unmarshal returned the
// placeholder's number instead of the number it had just parsed.
func TestD31LegacyEnumDefaultFromTag(t *testing.T) {
	md := impl.LegacyLoadMessageDesc(reflect.TypeOf(&d31Message{}))
	fd := md.Fields().ByNumber(1)
	if !fd.HasDefault() {
		t.Fatal("no default")
	}
	if got := fd.Default().Enum(); got != 2 {
		t.Errorf("Default().Enum() = %d, want 2 (tag says def=2; DefaultEnumValue is %v)", got, fd.DefaultEnumValue().FullName())
	}
}
