package proto_test

import (
	"testing"

	"google.golang.org/protobuf/internal/flags"
	"google.golang.org/protobuf/proto"

	messagesetpb "google.golang.org/protobuf/internal/testprotos/messageset/messagesetpb"
)

func TestD16MessageSetUnknownSize(t *testing.T) {
	if flags.ProtoLegacy {
		t.Skip("default build only")
	}
	m := &messagesetpb.MessageSet{}
	if err := proto.Unmarshal([]byte{0x08, 0x01}, m); err != nil {
		t.Fatal(err)
	}
	b, err := proto.Marshal(m)
	if err != nil {
		t.Fatal(err)
	}
	if got, want := proto.Size(m), len(b); got != want {
		t.Errorf("Size = %d, len(Marshal) = %d (%x)", got, want, b)
	}
	outer := &messagesetpb.MessageSetContainer{MessageSet: m}
	if _, err := proto.Marshal(outer); err != nil {
		t.Errorf("marshal of the containing message: %v", err)
	}
}
