package durationpb_test

import (
	"math"
	"math/big"
	"testing"
	"time"

	"google.golang.org/protobuf/types/known/durationpb"
)

// D25: AsDuration promises "the closest duration value in the event of
// overflow", i.e. the exact value of seconds*1e9+nanos clamped to int64. It
// clamped as soon as seconds*1e9 alone overflowed, even when nanos of the
// opposite sign bring the exact sum back into range.
func TestD25AsDurationPartialProductOverflow(t *testing.T) {
	for _, in := range []*durationpb.Duration{
		{Seconds: 9223372037, Nanos: -999999999},
		{Seconds: -9223372037, Nanos: 999999999},
		{Seconds: 9223372038, Nanos: -1500000000},
		{Seconds: -9223372039, Nanos: math.MaxInt32},
		{Seconds: 9223372039, Nanos: math.MinInt32},
		{Seconds: 9223372037, Nanos: -1},          // still out of range
		{Seconds: 9223372036, Nanos: 999999999},   // overflow through the addition
		{Seconds: -9223372036, Nanos: -999999999}, // overflow through the addition
		{Seconds: 1, Nanos: -1500000000},          // zero crossing
		{Seconds: math.MaxInt64, Nanos: math.MinInt32},
		{Seconds: math.MinInt64, Nanos: math.MaxInt32},
	} {
		exact := new(big.Int).Mul(big.NewInt(in.Seconds), big.NewInt(1e9))
		exact.Add(exact, big.NewInt(int64(in.Nanos)))
		var want time.Duration
		switch {
		case exact.Cmp(big.NewInt(math.MaxInt64)) > 0:
			want = math.MaxInt64
		case exact.Cmp(big.NewInt(math.MinInt64)) < 0:
			want = math.MinInt64
		default:
			want = time.Duration(exact.Int64())
		}
		if got := in.AsDuration(); got != want {
			t.Errorf("Duration{Seconds: %d, Nanos: %d}.AsDuration() = %d, want %d", in.Seconds, in.Nanos, int64(got), int64(want))
		}
	}
}
