package proto_test

import (
	"testing"

	"google.golang.org/protobuf/encoding/protowire"
	"google.golang.org/protobuf/internal/flags"
	"google.golang.org/protobuf/proto"
	"google.golang.org/protobuf/testing/protopack"

	messagesetpb "google.golang.org/protobuf/internal/testprotos/messageset/messagesetpb"
	msetextpb "google.golang.org/protobuf/internal/testprotos/messageset/msetextpb"
)

func TestD12DuplicateItems(t *testing.T) {
	if !flags.ProtoLegacy {
		t.Skip("needs protolegacy")
	}
	_ = protowire.Number(0)
	item := func(f protopack.Message) protopack.Message {
		return protopack.Message{
			protopack.Tag{1, protopack.StartGroupType},
			protopack.Tag{2, protopack.VarintType}, protopack.Varint(1000),
			protopack.Tag{3, protopack.BytesType}, protopack.LengthPrefix(f),
			protopack.Tag{1, protopack.EndGroupType},
		}
	}
	in := append(item(protopack.Message{protopack.Tag{1, protopack.VarintType}, protopack.Varint(10)}),
		item(protopack.Message{protopack.Tag{2, protopack.VarintType}, protopack.Varint(20)})...).Marshal()
	for _, access := range []bool{false, true} {
		m := &messagesetpb.MessageSet{}
		if err := proto.Unmarshal(in, m); err != nil {
			t.Fatal(err)
		}
		if access {
			_ = proto.GetExtension(m, msetextpb.E_Ext1_MessageSetExt1)
		}
		out, err := proto.Marshal(m)
		if err != nil {
			t.Fatal(err)
		}
		m2 := &messagesetpb.MessageSet{}
		if err := proto.Unmarshal(out, m2); err != nil {
			t.Fatal(err)
		}
		e1 := proto.GetExtension(m, msetextpb.E_Ext1_MessageSetExt1).(*msetextpb.Ext1)
		e2 := proto.GetExtension(m2, msetextpb.E_Ext1_MessageSetExt1).(*msetextpb.Ext1)
		t.Logf("access=%v out=%x size=%d", access, out, proto.Size(m))
		if !proto.Equal(e1, e2) {
			t.Errorf("access=%v: round trip lost data: before %v after %v", access, e1, e2)
		}
	}
}
