package proto_test

import (
	"testing"

	"google.golang.org/protobuf/encoding/prototext"
	"google.golang.org/protobuf/proto"

	testeditionspb "google.golang.org/protobuf/internal/testprotos/testeditions"
)

func TestD17EditionsExtensionUTF8(t *testing.T) {
	// regular editions string field (utf8_validation = VERIFY by default): rejected
	if err := proto.Unmarshal([]byte{0x72, 0x04, 'a', 'b', 'c', 0xff}, &testeditionspb.TestAllTypes{}); err == nil {
		t.Fatalf("field: invalid UTF-8 accepted")
	}
	// the extension optional_string = 14 of the same edition
	m := &testeditionspb.TestAllExtensions{}
	if err := proto.Unmarshal([]byte{0x72, 0x04, 'a', 'b', 'c', 0xff}, m); err == nil {
		t.Errorf("extension: binary Unmarshal accepted invalid UTF-8: %q", proto.GetExtension(m, testeditionspb.E_OptionalString))
	}
	m2 := &testeditionspb.TestAllExtensions{}
	proto.SetExtension(m2, testeditionspb.E_OptionalString, "abc\xff")
	if _, err := proto.Marshal(m2); err == nil {
		t.Errorf("extension: binary Marshal accepted invalid UTF-8")
	}
	if _, err := prototext.Marshal(m2); err == nil {
		t.Errorf("extension: prototext Marshal accepted invalid UTF-8")
	}
}
