#!/usr/bin/env python3
"""Development tool: assemble /verif/DESIGN.md from design_src/head.md and
design_src/body.md, filling @COUNTS@ (rule instance counts per property, from
evidence/Cnn.json) and @MATRIX@ (seeded changes vs. checks, from
seeded/*/meta.json). Not referenced by MANIFEST."""
import json, glob, os, re
V = '/verif'
def counts():
    man = json.load(open(f'{V}/MANIFEST.json'))
    rows = ["| id | level | tier of the counts | rules (instances) |", "|---|---|---|---|"]
    claimed = []
    for c in man['checks']:
        pid = c['property_id'] if 'property_id' in c else c.get('id')
        claimed.append(pid)
    for pid in sorted(claimed):
        p = f'{V}/evidence/{pid}.json'
        if not os.path.exists(p):
            rows.append(f"| {pid} | ? | - | (no evidence file) |"); continue
        e = json.load(open(p))
        cov = e['coverage']
        rules = ', '.join(f"{r['name']} {r['instances']}" for r in cov.get('rules', []))
        cfg = cov.get('configs') or []
        extra = '' if cfg in ([], ['default']) else ' (configurations: ' + ', '.join(cfg) + ')'
        rows.append(f"| {pid} | {e['level']} | {e['tier']} | {rules}{extra} |")
    na = [n['property_id'] if isinstance(n, dict) else n for n in man.get('not_applicable', [])]
    rows.append(f"| {' '.join(sorted(na))} | — | — | not applicable (§6) |")
    return '\n'.join(rows)
def matrix():
    rows = ["| seed | property | own check | caught by | first reporting rule(s) | change |", "|---|---|---|---|---|---|"]
    key = lambda s: [int(x) for x in re.findall(r'\d+', os.path.basename(s))]
    n = caught = other = missed = nc = 0
    for d in sorted(glob.glob(f'{V}/seeded/C*-*'), key=key):
        mp = os.path.join(d, 'meta.json')
        if not os.path.exists(mp): continue
        m = json.load(open(mp)); n += 1
        rep = "\n".join(m.get('check_report', []))
        rules = sorted(set(re.findall(r'(?:VIOLATED|UNDECIDED) (\S+)', rep)))
        und = 'UNDECIDED' in rep and 'VIOLATED' not in rep
        own = m.get('own_property_check', '')
        by = ' '.join(m.get('caught_by', [])) or '✗'
        if own == 'caught': caught += 1
        elif m.get('caught_by'): other += 1
        elif own == 'not-claimed': nc += 1
        else: missed += 1
        rows.append("| %s | %s | %s | %s | %s | %s |" % (os.path.basename(d), m['property'], own + (' (undecided)' if und else ''), by, ' '.join(rules[:3]), m['breaks'][:150].replace('|', '/').replace('\n', ' ')))
    summ = f"{n} seeded changes: {caught} caught by the check of their own property, {other} only by another property's check, {missed} missed by every check" + (f", {nc} for a property that is not claimed" if nc else "") + "."
    return summ + "\n\n" + '\n'.join(rows)
s = open(f'{V}/design_src/head.md').read() + open(f'{V}/design_src/body.md').read()
s = s.replace('@COUNTS@', counts()).replace('@MATRIX@', matrix())
open(f'{V}/DESIGN.md', 'w').write(s)
print("DESIGN.md written:", len(s.splitlines()), "lines")
