#!/bin/bash
# Development tool (not a registered check): independently confirm a seeded
# change delivered by a sub-agent and file it under /verif/seeded/<name>/.
# usage: tools_seedverify.sh <delivery-dir> <name> [extra go test tags]
#   delivery-dir holds patch.diff, demo_test.go (or demo/), DEMO.md, meta.json
# Steps, in a scratch worktree of /repo HEAD under /tmp (removed afterwards):
#   apply patch -> go build ./... -> full test suite must pass -> demo must FAIL
#   revert patch -> demo must PASS
set -u
src="$1"; name="$2"; tags="${3:-}"
export GOFLAGS=-mod=mod GOPROXY=off GOSUMDB=off GOTOOLCHAIN=local
wt="/tmp/wt-verify-$name-$$"
log="/tmp/seedverify-$name.log"
: > "$log"
git -C /repo worktree add -q --detach "$wt" HEAD || exit 2
cleanup() { git -C /repo worktree remove --force "$wt" >/dev/null 2>&1; }
trap cleanup EXIT
cd "$wt" || exit 2
res() { echo "$1" | tee -a "$log"; }
if ! git apply "$src/patch.diff" 2>>"$log"; then res "RESULT $name: patch does not apply to HEAD"; exit 1; fi
if ! go build ./... >>"$log" 2>&1; then res "RESULT $name: build fails"; exit 1; fi
tagarg=""; [ -n "$tags" ] && tagarg="-tags=$tags"
if go test -vet=off -count=1 ./... >"$log.suite" 2>&1; then suite=pass; else suite=FAIL; fi
grep -v "^ok\|no test files" "$log.suite" | head -20 >>"$log"
# demo placement: first indented path ending in _test.go or .go in DEMO.md
dest=$(grep -oE '[A-Za-z0-9_./-]+_test\.go' "$src/DEMO.md" | grep / | head -1)
if [ -z "$dest" ]; then res "RESULT $name: cannot find demo placement in DEMO.md (suite=$suite)"; exit 1; fi
demo="$src/demo_test.go"; [ -f "$demo" ] || demo=$(ls "$src"/*_test.go 2>/dev/null | head -1)
mkdir -p "$wt/$(dirname "$dest")"; cp "$demo" "$wt/$dest" || { res "RESULT $name: cannot place demo"; exit 1; }
pkg="./$(dirname "$dest")/"
if go test -vet=off -count=1 $tagarg "$pkg" >"$log.with" 2>&1; then with=pass; else with=FAIL; fi
git apply -R "$src/patch.diff"
if go test -vet=off -count=1 $tagarg "$pkg" >"$log.without" 2>&1; then without=pass; else without=FAIL; fi
res "RESULT $name: suite_with_patch=$suite demo_with_patch=$with demo_without_patch=$without dest=$dest"
if [ "$suite" = pass ] && [ "$with" = FAIL ] && [ "$without" = pass ]; then
  out="/verif/seeded/$name"; mkdir -p "$out"
  cp "$src/patch.diff" "$out/patch.diff"; cp "$demo" "$out/demo_test.go"; cp "$src/DEMO.md" "$out/DEMO.md"
  cp "$src/meta.json" "$out/meta.agent.json"
  echo "$dest" > "$out/demo_dest.txt"
  res "CONFIRMED $name -> $out"
  exit 0
fi
exit 1
